// vh-wire binds specs/WireMalleability to the real interceptors (property C18).
//
//	vh-wire describe <out.ndjson>   reflect the protobuf schemas of the intercepted Go types, build canonical instances
//	                                (shard header, meta header, miniblock, transaction), marshal them with the real
//	                                marshalizer and parse the bytes into abstract wire records for MC_WireReal.tla
//	vh-wire replay <mutants.ndjson> for every TLC-generated mutant (abstract encoding + the specification's
//	                                predictions): build the bytes, run the REAL interceptor constructor + CheckValidity
//	                                with the real sizeCheckUnmarshalizer(GogoProtoMarshalizer) for every size-check
//	                                configuration, report accepted / decoded-equal / hash-equal
//
// No model logic here: parsing bytes into records and writing records as bytes is the (mechanical) concretisation;
// whether a mutant decodes, keeps the content, passes the size check, and its class all come from TLA+.
// Verdict: accepted /\ decoded-equal /\ hash differs from the canonical encoding's hash  => C18 violated
// (signature C18/<type>/<classes>/<size check>).  A prediction of the specification that the real code does not
// confirm is drift (not an alarm).
package main

import (
	"bytes"
	stded "crypto/ed25519"
	"encoding/json"
	"fmt"
	"math"
	"math/big"
	"os"
	"reflect"
	"sort"
	"strconv"
	"strings"

	"github.com/ElrondNetwork/elrond-go/core/pubkeyConverter"
	"github.com/ElrondNetwork/elrond-go/core/versioning"
	"github.com/ElrondNetwork/elrond-go/crypto/signing"
	"github.com/ElrondNetwork/elrond-go/crypto/signing/ed25519"
	"github.com/ElrondNetwork/elrond-go/crypto/signing/ed25519/singlesig"
	"github.com/ElrondNetwork/elrond-go/data/block"
	"github.com/ElrondNetwork/elrond-go/data/transaction"
	"github.com/ElrondNetwork/elrond-go/hashing/blake2b"
	"github.com/ElrondNetwork/elrond-go/hashing/keccak"
	"github.com/ElrondNetwork/elrond-go/marshal"
	"github.com/ElrondNetwork/elrond-go/process"
	"github.com/ElrondNetwork/elrond-go/process/block/interceptedBlocks"
	"github.com/ElrondNetwork/elrond-go/process/mock"
	"github.com/ElrondNetwork/elrond-go/process/smartContract"
	ptx "github.com/ElrondNetwork/elrond-go/process/transaction"
	"github.com/ElrondNetwork/elrond-go/testscommon"
	"verif/harness/internal/vtrace"
)

type M = vtrace.M

// ---------------------------------------------------------------- schema reflection

type field struct {
	Fn   int    `json:"fn"`
	Kind string `json:"kind"`
	Rep  bool   `json:"rep"`
	Sub  string `json:"sub"`
}

var schemas = map[string][]field{}

var bigIntType = reflect.TypeOf((*big.Int)(nil))

func reflectSchema(t reflect.Type) string {
	name := t.Name()
	if _, ok := schemas[name]; ok {
		return name
	}
	schemas[name] = nil
	var fs []field
	for i := 0; i < t.NumField(); i++ {
		sf := t.Field(i)
		tag := sf.Tag.Get("protobuf")
		if tag == "" {
			continue
		}
		parts := strings.Split(tag, ",")
		fn, _ := strconv.Atoi(parts[1])
		f := field{Fn: fn, Rep: parts[2] == "rep"}
		ft := sf.Type
		switch {
		case ft == bigIntType:
			f.Kind = "big"
		case ft.Kind() == reflect.Uint64:
			f.Kind = "u64"
		case ft.Kind() == reflect.Uint32 || ft.Kind() == reflect.Int32: // enums are int32: bits >= 32 dropped alike
			f.Kind = "u32"
		case ft.Kind() == reflect.Slice && ft.Elem().Kind() == reflect.Uint8:
			f.Kind = "bytes"
		case ft.Kind() == reflect.Slice && ft.Elem().Kind() == reflect.Slice && ft.Elem().Elem().Kind() == reflect.Uint8:
			f.Kind = "bytes"
		case ft.Kind() == reflect.Struct:
			f.Kind, f.Sub = "msg", reflectSchema(ft)
		case ft.Kind() == reflect.Slice && ft.Elem().Kind() == reflect.Struct:
			f.Kind, f.Sub = "msg", reflectSchema(ft.Elem())
		default:
			panic(fmt.Sprintf("unsupported protobuf field %s.%s of type %s", name, sf.Name, ft))
		}
		if (parts[0] == "varint") != (f.Kind == "u64" || f.Kind == "u32") {
			panic("wire kind mismatch for " + name + "." + sf.Name)
		}
		fs = append(fs, f)
	}
	sort.Slice(fs, func(i, j int) bool { return fs[i].Fn < fs[j].Fn })
	schemas[name] = fs
	return name
}

func fieldOf(typ string, fn int) *field {
	for i := range schemas[typ] {
		if schemas[typ][i].Fn == fn {
			return &schemas[typ][i]
		}
	}
	return nil
}

// ---------------------------------------------------------------- abstract records <-> bytes

type payload struct {
	ID  int   `json:"id"`
	Len int   `json:"len"`
	B   []int `json:"b"`
}

type rec struct {
	Fn  int     `json:"fn"`
	Wt  int     `json:"wt"`
	Tx  int     `json:"tx"`
	Vid int     `json:"vid"`
	Vw  int     `json:"vw"`
	Vx  int     `json:"vx"`
	Hi  int     `json:"hi"`
	Lx  int     `json:"lx"`
	P   payload `json:"p"`
	M   bool    `json:"m"`
	Sub []rec   `json:"sub"`
}

const otherValue = 85 // the specification's "some other number" (vid -1); no instance field may hold it

// interning tables (deterministic: filled in parse order of the fixed instances)
var (
	varIDs  = map[uint64]int{0: 0}
	varVals = []uint64{0}
	payIDs  = map[string]int{"": 0}
	payVals = [][]byte{{}}
)

func internVar(v uint64) int {
	if v == otherValue {
		panic("an instance field holds the reserved value 85")
	}
	if id, ok := varIDs[v]; ok {
		return id
	}
	varVals = append(varVals, v)
	varIDs[v] = len(varVals) - 1
	return len(varVals) - 1
}

func internPay(b []byte) int {
	if len(b) == 1 && b[0] == otherValue {
		panic("an instance payload equals the reserved payload {85}")
	}
	if id, ok := payIDs[string(b)]; ok {
		return id
	}
	payVals = append(payVals, append([]byte(nil), b...))
	payIDs[string(b)] = len(payVals) - 1
	return len(payVals) - 1
}

func varintLen(v uint64) int {
	n := 1
	for v >= 0x80 {
		v >>= 7
		n++
	}
	return n
}

func putVarint(buf *bytes.Buffer, v uint64, extra int) {
	for v >= 0x80 {
		buf.WriteByte(byte(v) | 0x80)
		v >>= 7
	}
	if extra == 0 {
		buf.WriteByte(byte(v))
		return
	}
	buf.WriteByte(byte(v) | 0x80) // non-minimal: continuation bytes that add nothing
	for i := 1; i < extra; i++ {
		buf.WriteByte(0x80)
	}
	buf.WriteByte(0x00)
}

func readVarint(b []byte) (uint64, int) {
	var v uint64
	for i := 0; i < len(b); i++ {
		v |= uint64(b[i]&0x7f) << (7 * uint(i))
		if b[i] < 0x80 {
			return v, i + 1
		}
	}
	panic("truncated varint in canonical bytes")
}

// parse turns canonical bytes of a message of type typ into abstract records
func parse(typ string, b []byte) []rec {
	var out []rec
	for len(b) > 0 {
		tag, n := readVarint(b)
		b = b[n:]
		r := rec{Fn: int(tag >> 3), Wt: int(tag & 7), Vw: 1, P: payload{B: []int{}}, Sub: []rec{}}
		f := fieldOf(typ, r.Fn)
		if f == nil {
			panic(fmt.Sprintf("canonical bytes of %s contain unknown field %d", typ, r.Fn))
		}
		switch r.Wt {
		case 0:
			v, n := readVarint(b)
			b = b[n:]
			r.Vid, r.Vw = internVar(v), varintLen(v)
		case 2:
			l, n := readVarint(b)
			b = b[n:]
			pl := b[:l]
			b = b[l:]
			switch f.Kind {
			case "msg":
				r.M, r.Sub = true, parse(f.Sub, pl)
			case "big":
				r.P = payload{ID: -1, Len: len(pl), B: toInts(pl)}
			default:
				r.P = payload{ID: internPay(pl), Len: len(pl), B: []int{}}
			}
		default:
			panic("unexpected wire type in canonical bytes")
		}
		out = append(out, r)
	}
	if out == nil {
		out = []rec{}
	}
	return out
}

func toInts(b []byte) []int {
	r := make([]int, len(b))
	for i := range b {
		r[i] = int(b[i])
	}
	return r
}

// build writes abstract records as bytes
func build(rs []rec) []byte {
	var buf bytes.Buffer
	for _, r := range rs {
		putVarint(&buf, uint64(r.Fn)<<3|uint64(r.Wt), r.Tx)
		switch r.Wt {
		case 0:
			var v uint64
			if r.Vid == -1 {
				v = otherValue
			} else {
				v = varVals[r.Vid]
			}
			if varintLen(v) != r.Vw {
				panic(fmt.Sprintf("width of value id %d: model %d, real %d", r.Vid, r.Vw, varintLen(v)))
			}
			if r.Hi == 1 {
				v |= 1 << 32
			}
			putVarint(&buf, v, r.Vx)
		case 1:
			buf.Write(bytes.Repeat([]byte{0x11}, 8))
		case 5:
			buf.Write(bytes.Repeat([]byte{0x11}, 4))
		case 2:
			var pl []byte
			switch {
			case r.M:
				pl = build(r.Sub)
			case r.P.ID == -2: // the specification's padding of r.P.Len bytes
				pl = bytes.Repeat([]byte{otherValue}, r.P.Len)
			case r.P.ID == -1:
				pl = make([]byte, len(r.P.B))
				for i, x := range r.P.B {
					pl[i] = byte(x)
				}
			default:
				pl = payVals[r.P.ID]
			}
			putVarint(&buf, uint64(len(pl)), r.Lx)
			buf.Write(pl)
		default:
			// other wire types are never generated
			panic("wire type " + strconv.Itoa(r.Wt))
		}
	}
	return buf.Bytes()
}

// ---------------------------------------------------------------- instances

type instance struct {
	Type  string // schema name
	Kind  string // shardHeader | metaHeader | miniblock | transaction
	Name  string
	Canon []byte
	fresh func() marshal.GogoProtoObj
}

var plain = &marshal.GogoProtoMarshalizer{}

func h32(c byte) []byte { return bytes.Repeat([]byte{c}, 32) }

var chainID = []byte("T")

func signedTx(tx *transaction.Transaction) *transaction.Transaction {
	seed := bytes.Repeat([]byte{7}, 32)
	sk := stded.NewKeyFromSeed(seed)
	kg := signing.NewKeyGenerator(ed25519.NewEd25519())
	priv, err := kg.PrivateKeyFromByteArray(sk)
	if err != nil {
		panic(err)
	}
	pub, _ := priv.GeneratePublic().ToByteArray()
	tx.SndAddr = pub
	conv, _ := pubkeyConverter.NewBech32PubkeyConverter(32)
	msg, err := tx.GetDataForSigning(conv, &marshal.JsonMarshalizer{})
	if err != nil {
		panic(err)
	}
	sig, err := (&singlesig.Ed25519Signer{}).Sign(priv, msg)
	if err != nil {
		panic(err)
	}
	tx.Signature = sig
	return tx
}

func instances(tier string) []instance {
	mbh := block.MiniBlockHeader{Hash: h32(0xa1), SenderShardID: 1, ReceiverShardID: 0, TxCount: 3, Type: block.TxBlock}
	shardA := &block.Header{
		Nonce: 7, PrevHash: h32(0xb1), PrevRandSeed: h32(0xb2), RandSeed: h32(0xb3), PubKeysBitmap: []byte{0x07},
		ShardID: 0, TimeStamp: 1600000000, Round: 9, Epoch: 0, BlockBodyType: block.TxBlock,
		Signature: h32(0xb4), LeaderSignature: h32(0xb5), MiniBlockHeaders: []block.MiniBlockHeader{mbh},
		RootHash: h32(0xb6), MetaBlockHashes: [][]byte{h32(0xb7)}, TxCount: 3, ChainID: chainID,
		SoftwareVersion: []byte("v1"), AccumulatedFees: big.NewInt(0), DeveloperFees: big.NewInt(1000),
	}
	shardB := &block.Header{ // few fields, fees nil (written as one byte, absent decodes the same)
		Nonce: 300, PrevHash: h32(0xc1), PrevRandSeed: h32(0xc2), RandSeed: h32(0xc3), PubKeysBitmap: []byte{0x01},
		ShardID: 1, Round: 301, Epoch: 2, Signature: h32(0xc4), RootHash: h32(0xc5), ChainID: chainID,
		SoftwareVersion: []byte("v1"),
	}
	metaA := &block.MetaBlock{
		Nonce: 5, Epoch: 1, Round: 6, TimeStamp: 1600000006,
		ShardInfo: []block.ShardData{{HeaderHash: h32(0xd1), ShardMiniBlockHeaders: []block.MiniBlockHeader{mbh},
			PrevRandSeed: h32(0xd2), PubKeysBitmap: []byte{3}, Signature: h32(0xd3), Round: 5, PrevHash: h32(0xd4),
			Nonce: 4, AccumulatedFees: big.NewInt(10), DeveloperFees: big.NewInt(0), ShardID: 1, TxCount: 3}},
		Signature: h32(0xd5), LeaderSignature: h32(0xd6), PubKeysBitmap: []byte{0x0f}, PrevHash: h32(0xd7),
		PrevRandSeed: h32(0xd8), RandSeed: h32(0xd9), RootHash: h32(0xda), ValidatorStatsRootHash: h32(0xdb),
		ChainID: chainID, SoftwareVersion: []byte("v1"), AccumulatedFees: big.NewInt(0),
		AccumulatedFeesInEpoch: big.NewInt(77), DeveloperFees: big.NewInt(0), DevFeesInEpoch: big.NewInt(0), TxCount: 3,
	}
	metaB := &block.MetaBlock{ // no shard info: the always-written empty EpochStart dominates
		Nonce: 2, Round: 3, Signature: h32(0xe1), PubKeysBitmap: []byte{1}, PrevHash: h32(0xe2), PrevRandSeed: h32(0xe3),
		RandSeed: h32(0xe4), RootHash: h32(0xe5), ChainID: chainID, SoftwareVersion: []byte("v1"),
		AccumulatedFees: big.NewInt(0), AccumulatedFeesInEpoch: big.NewInt(0), DeveloperFees: big.NewInt(0),
		DevFeesInEpoch: big.NewInt(0),
	}
	mbA := &block.MiniBlock{TxHashes: [][]byte{h32(0xf1), h32(0xf2)}, ReceiverShardID: 1, SenderShardID: 0, Type: block.TxBlock}
	mbB := &block.MiniBlock{TxHashes: [][]byte{h32(0xf3)}, ReceiverShardID: 0, SenderShardID: 1, Type: block.SmartContractResultBlock}
	txA := signedTx(&transaction.Transaction{Nonce: 12, Value: big.NewInt(0), RcvAddr: h32(0x21), GasPrice: 1000000000,
		GasLimit: 50000, ChainID: chainID, Version: 1})
	txB := signedTx(&transaction.Transaction{Nonce: 1, Value: big.NewInt(1234567), RcvAddr: h32(0x22), GasPrice: 1000000000,
		GasLimit: 70000, Data: []byte("transfer@01"), ChainID: chainID, Version: 1})

	mk := func(kind, name string, o marshal.GogoProtoObj, fresh func() marshal.GogoProtoObj) instance {
		b, err := plain.Marshal(o)
		if err != nil {
			panic(err)
		}
		return instance{Type: reflectSchema(reflect.TypeOf(o).Elem()), Kind: kind, Name: name, Canon: b, fresh: fresh}
	}
	fh := func() marshal.GogoProtoObj { return &block.Header{} }
	fm := func() marshal.GogoProtoObj { return &block.MetaBlock{} }
	fb := func() marshal.GogoProtoObj { return &block.MiniBlock{} }
	ft := func() marshal.GogoProtoObj { return &transaction.Transaction{} }
	all := []instance{
		mk("shardHeader", "shard header, zero and non-zero fees, one miniblock header", shardA, fh),
		mk("metaHeader", "meta block without shard info (empty EpochStart always written)", metaB, fm),
		mk("miniblock", "miniblock, two tx hashes, type 0", mbA, fb),
		mk("transaction", "signed transaction, value 0", txA, ft),
	}
	if tier != "quick" {
		all = append(all,
			mk("shardHeader", "shard header, nil fees", shardB, fh),
			mk("metaHeader", "meta block with one shard data", metaA, fm),
			mk("miniblock", "miniblock, one tx hash, type 90", mbB, fb),
			mk("transaction", "signed transaction, value 1234567, data", txB, ft))
	}
	return all
}

// ---------------------------------------------------------------- the real interceptors

type verdict struct {
	ctor  bool // constructor succeeded (decoding + size check)
	valid bool // CheckValidity() == nil
	hash  []byte
	err   string
}

var (
	hasherHdr = blake2b.NewBlake2b()
	txSigner  = &singlesig.Ed25519Signer{}
	txKeyGen  = signing.NewKeyGenerator(ed25519.NewEd25519())
)

func marshalizerFor(delta int) marshal.Marshalizer {
	if delta < 0 {
		return &marshal.GogoProtoMarshalizer{} // SizeCheckDelta = 0 in the config: the factory installs no wrapper
	}
	return marshal.NewSizeCheckUnmarshalizer(&marshal.GogoProtoMarshalizer{}, uint32(delta))
}

func intercept(kind string, buff []byte, delta int) verdict {
	return interceptWith(kind, buff, marshalizerFor(delta))
}

type wrapOp struct {
	On int `json:"on"`
	D  int `json:"d"`
}

type history struct {
	Name string   `json:"name"`
	Ops  []wrapOp `json:"ops"`
	Use  int      `json:"use"`
	Acc  bool     `json:"acc"`
}

// handleOf executes a wrapping history with the real constructor (handle 0 = the bare marshalizer, handle i =
// NewSizeCheckUnmarshalizer(handle ops[i].on, ops[i].d)) and returns the handle the history says the consumer holds.
// All operations are executed before the handle is used.
func handleOf(h history) marshal.Marshalizer {
	hs := []marshal.Marshalizer{&marshal.GogoProtoMarshalizer{}}
	for _, op := range h.Ops {
		d := uint32(op.D)
		if op.D == -2 {
			d = math.MaxUint32 // the specification's "Lenient"
		}
		hs = append(hs, marshal.NewSizeCheckUnmarshalizer(hs[op.On], d))
	}
	return hs[h.Use]
}

func interceptWith(kind string, buff []byte, m marshal.Marshalizer) verdict {
	var d process.InterceptedData
	var err error
	switch kind {
	case "shardHeader", "metaHeader":
		arg := &interceptedBlocks.ArgInterceptedBlockHeader{
			HdrBuff: buff, Marshalizer: m, Hasher: hasherHdr, ShardCoordinator: mock.NewMultiShardsCoordinatorMock(3),
			HeaderSigVerifier: &mock.HeaderSigVerifierStub{}, HeaderIntegrityVerifier: &mock.HeaderIntegrityVerifierStub{},
			ValidityAttester: &mock.ValidityAttesterStub{}, EpochStartTrigger: &mock.EpochStartTriggerStub{},
		}
		if kind == "shardHeader" {
			var x *interceptedBlocks.InterceptedHeader
			x, err = interceptedBlocks.NewInterceptedHeader(arg)
			if err == nil {
				d = x
			}
		} else {
			var x *interceptedBlocks.InterceptedMetaHeader
			x, err = interceptedBlocks.NewInterceptedMetaHeader(arg)
			if err == nil {
				d = x
			}
		}
	case "miniblock":
		var x *interceptedBlocks.InterceptedMiniblock
		x, err = interceptedBlocks.NewInterceptedMiniblock(&interceptedBlocks.ArgInterceptedMiniblock{
			MiniblockBuff: buff, Marshalizer: m, Hasher: hasherHdr, ShardCoordinator: mock.NewMultiShardsCoordinatorMock(3)})
		if err == nil {
			d = x
		}
	case "transaction":
		conv, _ := pubkeyConverter.NewBech32PubkeyConverter(32)
		var x *ptx.InterceptedTransaction
		x, err = ptx.NewInterceptedTransaction(buff, m, &marshal.JsonMarshalizer{}, hasherHdr, txKeyGen, txSigner, conv,
			mock.NewMultiShardsCoordinatorMock(3),
			&mock.FeeHandlerStub{CheckValidityTxValuesCalled: func(tx process.TransactionWithFeeHandler) error { return nil }},
			&testscommon.WhiteListHandlerStub{}, smartContract.NewArgumentParser(), chainID, false, keccak.NewKeccak(),
			versioning.NewTxVersionChecker(1))
		if err == nil {
			d = x
		}
	default:
		panic(kind)
	}
	if err != nil {
		return verdict{err: err.Error()}
	}
	v := verdict{ctor: true, hash: d.Hash()}
	if e := d.CheckValidity(); e != nil {
		v.err = e.Error()
	} else {
		v.valid = true
	}
	return v
}

// sameContent: decoded with the plain marshalizer, the buffer yields the content of the canonical instance
// (equal content <=> equal canonical re-encoding; Marshal is deterministic)
func sameContent(in instance, buff []byte) (decodes bool, same bool) {
	o := in.fresh()
	if err := plain.Unmarshal(o, buff); err != nil {
		return false, false
	}
	re, err := plain.Marshal(o)
	if err != nil {
		return true, false
	}
	return true, bytes.Equal(re, in.Canon)
}

// ---------------------------------------------------------------- commands

func describe(out string, tier string) {
	ins := instances(tier)
	f, err := os.Create(out)
	if err != nil {
		vtrace.Broken(err.Error())
		return
	}
	defer f.Close()
	enc := json.NewEncoder(f)
	_ = enc.Encode(M{"schemas": schemas})
	for _, in := range ins {
		rs := parse(in.Type, in.Canon)
		if !bytes.Equal(build(rs), in.Canon) {
			vtrace.Broken("parse/build round trip differs for " + in.Name)
			return
		}
		o := in.fresh()
		_ = plain.Unmarshal(o, in.Canon)
		size := o.(marshal.Sizer).Size()
		if size != len(in.Canon) {
			vtrace.Broken("Size() differs from the marshalled length for " + in.Name)
			return
		}
		// the canonical instance itself must be accepted by the real interceptor under the strictest check
		if v := intercept(in.Kind, in.Canon, 0); !v.ctor || !v.valid {
			vtrace.Broken("the canonical instance is rejected: " + in.Name + ": " + v.err)
			return
		}
		_ = enc.Encode(M{"type": in.Type, "kind": in.Kind, "name": in.Name, "enc": rs, "size": size})
	}
	vtrace.Stat("instances", len(ins))
	vtrace.Stat("schemas", len(schemas))
}

func deltaName(d int) string {
	if d < 0 {
		return "nocheck"
	}
	return "delta" + strconv.Itoa(d)
}

type mutant struct {
	Inst    int             `json:"inst"`
	Type    string          `json:"type"`
	Enc     []rec           `json:"enc"`
	Classes []string        `json:"classes"`
	Ok      bool            `json:"ok"`
	DecEq   bool            `json:"deceq"`
	Len     int             `json:"len"`
	ObjSize int             `json:"objsize"`
	Acc     map[string]bool `json:"acc"`
	Hs      []history       `json:"hs"`
}

func replay(path string, tier string) {
	ins := instances(tier)
	for _, in := range ins { // rebuild the interning tables exactly as `describe` did
		parse(in.Type, in.Canon)
	}
	lines, err := vtrace.ReadLines(path)
	if err != nil {
		vtrace.Broken(err.Error())
		return
	}
	canonHash := map[string][]byte{}
	distinct := vtrace.NewDistinct()
	malleable := vtrace.NewDistinct()
	nviol := map[string]int{}
	ndrift, evals, ncases, nhist := 0, 0, 0, 0
	drift := func(what string, detail interface{}) {
		ndrift++
		if ndrift <= 3 {
			vtrace.Drift("C18", what, detail)
		}
	}
	for li, raw := range lines {
		var mu mutant
		if e := json.Unmarshal(raw, &mu); e != nil {
			vtrace.Broken(fmt.Sprintf("mutant line %d: %v", li, e))
			return
		}
		if mu.Inst < 1 || mu.Inst > len(ins) {
			vtrace.Broken(fmt.Sprintf("mutant line %d names instance %d", li, mu.Inst))
			return
		}
		in := ins[mu.Inst-1]
		buff := build(mu.Enc)
		ncases++
		sort.Strings(mu.Classes)
		// signature class: the specification's labels; a reordering never changes the length, so it is named only
		// when it is the sole deviation (X+reordered is accepted exactly when X is)
		sigc := mu.Classes
		if len(sigc) > 1 {
			sigc = nil
			for _, c := range mu.Classes {
				if c != "reordered-fields" {
					sigc = append(sigc, c)
				}
			}
		}
		cls := strings.Join(sigc, "+")
		if cls == "" {
			cls = "unclassified"
		}
		if len(buff) != mu.Len {
			drift(fmt.Sprintf("%s: length of the mutant: specification %d, bytes %d (classes %s)", in.Kind, mu.Len, len(buff), cls),
				M{"mutant": json.RawMessage(raw)})
		}
		decodes, same := sameContent(in, buff)
		if decodes != mu.Ok || (decodes && same != mu.DecEq) {
			drift(fmt.Sprintf("%s (%s): decoding: specification ok=%v same-content=%v, real decoder ok=%v same-content=%v",
				in.Kind, cls, mu.Ok, mu.DecEq, decodes, same), M{"mutant": json.RawMessage(raw), "bytes": vtrace.Hex(buff)})
		}
		distinct.Add(in.Kind + "/" + cls)
		for dk, pred := range mu.Acc {
			delta, _ := strconv.Atoi(dk)
			dn := deltaName(delta)
			key := in.Kind + "/" + strconv.Itoa(mu.Inst) + "/" + dn
			if _, ok := canonHash[key]; !ok {
				v := intercept(in.Kind, in.Canon, delta)
				if !v.ctor || !v.valid {
					vtrace.Broken("canonical instance rejected under " + dn + ": " + in.Name)
					return
				}
				canonHash[key] = v.hash
			}
			v := intercept(in.Kind, buff, delta)
			evals++
			accepted := v.ctor && v.valid
			// prediction: constructor succeeds iff the bytes decode and pass the size check; for unchanged content the
			// validity checks give what they give for the canonical instance (valid)
			enlarges := accepted && same && !pred // reported below as a violation with its own signature, not as drift
			if !enlarges && (v.ctor != pred || (same && accepted != pred)) {
				drift(fmt.Sprintf("%s (%s, %s): specification says accepted=%v, real interceptor: constructor ok=%v valid=%v err=%q (len %d, Size() %d)",
					in.Kind, cls, dn, pred, v.ctor, v.valid, v.err, len(buff), mu.ObjSize),
					M{"mutant": json.RawMessage(raw), "bytes": vtrace.Hex(buff)})
			}
			if accepted && same && !bytes.Equal(buff, in.Canon) {
				if !bytes.Equal(v.hash, canonHash[key]) {
					// a second encoding that the specification's transcription of the decoder / of the size rule does
					// NOT accept enlarges the malleable set: it gets its own signature (never a listed finding)
					sc := cls
					if !mu.Ok {
						sc += "+undecodable-by-specification"
					} else if !pred {
						sc += "+beyond-tolerance"
					}
					sig := "C18/" + in.Kind + "/" + sc + "/" + dn
					malleable.Add(sig)
					nviol[sig]++
					if nviol[sig] == 1 {
						vtrace.Violation("C18", sig,
							fmt.Sprintf("%s: a second byte string (%s; %d bytes, canonical %d) is accepted by the interceptor with size check %s, decodes to the same content and has a different hash (%s vs %s)",
								in.Kind, sc, len(buff), len(in.Canon), dn, vtrace.Hex(v.hash)[:16], vtrace.Hex(canonHash[key])[:16]),
							M{"instance": in.Name, "canonical": vtrace.Hex(in.Canon), "second": vtrace.Hex(buff), "classes": mu.Classes,
								"sizecheck": dn})
					}
				}
			}
		}
		// wrapping histories: the rule of a handle depends on its own chain only.  Malleability within the rule is already
		// reported under the plain size checks; here only an acceptance BEYOND the handle's rule is reported.
		for _, h := range mu.Hs {
			key := in.Kind + "/" + strconv.Itoa(mu.Inst) + "/" + h.Name
			if _, ok := canonHash[key]; !ok {
				v := interceptWith(in.Kind, in.Canon, handleOf(h))
				if !v.ctor || !v.valid {
					vtrace.Broken("canonical instance rejected under wrapping history " + h.Name + ": " + in.Name)
					return
				}
				canonHash[key] = v.hash
			}
			v := interceptWith(in.Kind, buff, handleOf(h))
			evals++
			nhist++
			accepted := v.ctor && v.valid
			enlarges := accepted && same && !h.Acc && !bytes.Equal(v.hash, canonHash[key])
			if enlarges {
				sig := "C18/" + in.Kind + "/" + cls + "+beyond-tolerance/" + h.Name
				malleable.Add(sig)
				nviol[sig]++
				if nviol[sig] == 1 {
					vtrace.Violation("C18", sig,
						fmt.Sprintf("%s: under the marshalizer handle %q (wrapping history %v, handle %d) a second byte string (%s; %d bytes, canonical %d) that the handle's own size rule rejects is accepted, decodes to the same content and has a different hash",
							in.Kind, h.Name, h.Ops, h.Use, cls, len(buff), len(in.Canon)),
						M{"instance": in.Name, "canonical": vtrace.Hex(in.Canon), "second": vtrace.Hex(buff), "classes": mu.Classes,
							"history": h})
				}
			} else if v.ctor != h.Acc {
				drift(fmt.Sprintf("%s (%s, handle %s): specification says accepted=%v, real interceptor: constructor ok=%v valid=%v err=%q (len %d, Size() %d)",
					in.Kind, cls, h.Name, h.Acc, v.ctor, v.valid, v.err, len(buff), mu.ObjSize), M{"mutant": json.RawMessage(raw)})
			}
		}
		if li < 3 {
			vtrace.Sample("C18", M{"type": in.Kind, "classes": mu.Classes, "bytes": vtrace.Hex(buff), "spec": M{"ok": mu.Ok, "deceq": mu.DecEq, "acc": mu.Acc}})
		}
	}
	vtrace.Stat("mutants", ncases)
	vtrace.Stat("evaluations", evals)
	vtrace.Stat("handle_evaluations", nhist)
	vtrace.Stat("distinct_type_class", distinct.Len())
	vtrace.Stat("malleable_signatures", malleable.Len())
	vtrace.Stat("drifts", ndrift)
}

func main() {
	vtrace.Quiet()
	if len(os.Args) < 3 {
		fmt.Fprintln(os.Stderr, "usage: vh-wire describe <out> | replay <mutants>")
		os.Exit(2)
	}
	tier := os.Getenv("VERIF_TIER")
	if tier == "" {
		tier = "quick"
	}
	if len(os.Args) > 3 {
		tier = os.Args[3]
	}
	defer func() {
		if r := recover(); r != nil {
			vtrace.Broken(fmt.Sprint("panic: ", r))
			os.Exit(0)
		}
	}()
	switch os.Args[1] {
	case "describe":
		describe(os.Args[2], tier)
	case "replay":
		replay(os.Args[2], tier)
	default:
		os.Exit(2)
	}
}
