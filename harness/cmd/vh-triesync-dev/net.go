package main

// End-to-end network path (net mode): a request of the syncer is marshalled as the real requester does
// (RequestData{HashArrayType, Batch{hashes}}), handed to the REAL TrieNodeResolver that serves from the source
// trie (requested nodes first, then sub-tries through GetSerializedNodes, within MaxBufferSizeToSendTrieNodes),
// and every buffer the resolver sends is handed to the REAL MultiDataInterceptor (batch unmarshalling, real
// InterceptedTrieNode creation + CheckValidity, asynchronous TrieNodeInterceptorProcessor.Save into the cache).

import (
	"sync"

	"github.com/ElrondNetwork/elrond-go/core"
	"github.com/ElrondNetwork/elrond-go/data/batch"
	"github.com/ElrondNetwork/elrond-go/data/trie"
	"github.com/ElrondNetwork/elrond-go/dataRetriever"
	drmock "github.com/ElrondNetwork/elrond-go/dataRetriever/mock"
	"github.com/ElrondNetwork/elrond-go/dataRetriever/resolvers"
	"github.com/ElrondNetwork/elrond-go/process"
	"github.com/ElrondNetwork/elrond-go/process/interceptors"
	pmock "github.com/ElrondNetwork/elrond-go/process/mock"
	"github.com/ElrondNetwork/elrond-go/storage"
	"github.com/ElrondNetwork/elrond-go/testscommon"
	"github.com/ElrondNetwork/elrond-go/testscommon/p2pmocks"
)

// putRecorder is the cache as the interceptor processor sees it: it records the keys the processor stores under
type putRecorder struct {
	storage.Cacher
	mu   sync.Mutex
	keys [][]byte
}

func (p *putRecorder) Put(key []byte, value interface{}, size int) bool {
	p.mu.Lock()
	p.keys = append(p.keys, append([]byte(nil), key...))
	p.mu.Unlock()
	return p.Cacher.Put(key, value, size)
}

func (p *putRecorder) take() [][]byte {
	p.mu.Lock()
	defer p.mu.Unlock()
	k := p.keys
	p.keys = nil
	return k
}

// trieNodeFactory is process/interceptors/factory.interceptedTrieNodeDataFactory without the components holder
type trieNodeFactory struct{}

func (trieNodeFactory) Create(buff []byte) (process.InterceptedData, error) {
	return trie.NewInterceptedTrieNode(buff, marsh, hasher)
}
func (trieNodeFactory) IsInterfaceNil() bool { return false }

type gateThrottler struct{ end chan struct{} }

func (g *gateThrottler) CanProcess() bool     { return true }
func (g *gateThrottler) StartProcessing()     {}
func (g *gateThrottler) EndProcessing()       { g.end <- struct{}{} }
func (g *gateThrottler) IsInterfaceNil() bool { return g == nil }

type netPath struct {
	r           *run
	resolver    *resolvers.TrieNodeResolver
	interceptor *interceptors.MultiDataInterceptor
	thr         *gateThrottler
	sent        [][]byte
}

func newNetPath(r *run) *netPath {
	n := &netPath{r: r, thr: &gateThrottler{end: make(chan struct{}, 16)}}
	var err error
	n.resolver, err = resolvers.NewTrieNodeResolver(resolvers.ArgTrieNodeResolver{
		SenderResolver: &drmock.TopicResolverSenderStub{SendCalled: func(buff []byte, _ core.PeerID) error {
			n.sent = append(n.sent, append([]byte(nil), buff...))
			return nil
		}},
		TrieDataGetter:   r.sh.tr,
		Marshalizer:      marsh,
		AntifloodHandler: &drmock.P2PAntifloodHandlerStub{},
		Throttler:        &drmock.ThrottlerStub{},
	})
	if err != nil {
		panic(err)
	}
	n.interceptor, err = interceptors.NewMultiDataInterceptor(interceptors.ArgMultiDataInterceptor{
		Topic:                "trieNodes",
		Marshalizer:          marsh,
		DataFactory:          trieNodeFactory{},
		Processor:            r.proc,
		Throttler:            n.thr,
		AntifloodHandler:     &pmock.P2PAntifloodHandlerStub{},
		WhiteListRequest:     &testscommon.WhiteListHandlerStub{},
		PreferredPeersHolder: &p2pmocks.PeersHolderStub{},
		CurrentPeerId:        core.PeerID("me"),
	})
	if err != nil {
		panic(err)
	}
	return n
}

// receive hands one network buffer (a marshalled Batch of serialized nodes) to the real interceptor and logs what
// happened to every element
func (n *netPath) receive(buff []byte) {
	r := n.r
	b := &batch.Batch{}
	_ = marsh.Unmarshal(b, buff) // projection only: which nodes does this message carry
	r.rec.take()
	err := n.interceptor.ProcessReceivedMessage(&pmock.P2PMessageMock{DataField: buff, PeerField: core.PeerID("peer")}, core.PeerID("peer"))
	<-n.thr.end // EndProcessing is called on every path once StartProcessing was
	keys := r.rec.take()
	for i, el := range b.Data {
		x := r.contentID(el)
		acc := err == nil && i < len(keys)
		kid := 0
		if acc {
			kid = r.id(keys[i])
		}
		r.log("Deliver", M{"x": x}, M{"acc": acc, "key": kid})
	}
}

// deliverOne sends the bytes of one node (or invalid bytes) as a message of its own
func (n *netPath) deliverOne(x int, buff []byte) {
	r := n.r
	msg, _ := marsh.Marshal(&batch.Batch{Data: [][]byte{buff}})
	r.rec.take()
	err := n.interceptor.ProcessReceivedMessage(&pmock.P2PMessageMock{DataField: msg, PeerField: core.PeerID("adv")}, core.PeerID("adv"))
	<-n.thr.end
	keys := r.rec.take()
	acc := err == nil && len(keys) == 1
	kid := 0
	if acc {
		kid = r.id(keys[0])
	}
	r.log("Deliver", M{"x": x}, M{"acc": acc, "key": kid})
}

// answer lets the honest peer (the real resolver over the source trie) answer a request
func (n *netPath) answer(hashes [][]byte) {
	hb, _ := marsh.Marshal(&batch.Batch{Data: hashes})
	rd, _ := marsh.Marshal(&dataRetriever.RequestData{Type: dataRetriever.HashArrayType, Value: hb})
	n.sent = nil
	_ = n.resolver.ProcessReceivedMessage(&pmock.P2PMessageMock{DataField: rd, PeerField: core.PeerID("me")}, core.PeerID("me"))
	for _, buff := range n.sent {
		n.receive(buff)
	}
}
