// vh-pruningstorer binds specs/PruningStorer to storage/pruning.PruningStorer (property C30).
//
//	vh-pruningstorer replay <behaviours.ndjson> <suspects.ndjson> [all]  TLC behaviours -> real storer; compares answer + projected state per step
//	vh-pruningstorer record <seed> <traces> <len> <out.ndjson>     random histories on the real storer -> trace for Trace_PruningStorer
//
// The storer runs on memory persisters owned by the harness (one content map per path = per epoch, which survives
// Close/re-Create like a database directory; a closed handle answers every call with an error like leveldb does),
// a path manager stub, an old-data-cleaner stub and a notifier stub that captures the epochStart.ActionHandler the
// storer registers; epochs are driven through that handler (EpochStartPrepare / EpochStartAction).
// Persister contents are read from the harness' own maps; activePersisters, persistersMapByEpoch, isClosed,
// epochForPutOperation and the cacher are read by reflection (no hook file, no perturbation).
package main

import (
	"encoding/json"
	"errors"
	"fmt"
	"math/rand"
	"os"
	"reflect"
	"sort"
	"strconv"
	"strings"
	"sync"

	"github.com/ElrondNetwork/elrond-go/data/block"
	"github.com/ElrondNetwork/elrond-go/epochStart"
	"github.com/ElrondNetwork/elrond-go/storage"
	"github.com/ElrondNetwork/elrond-go/storage/mock"
	"github.com/ElrondNetwork/elrond-go/storage/pruning"
	"github.com/ElrondNetwork/elrond-go/storage/storageUnit"
	"github.com/ElrondNetwork/elrond-go/testscommon"
	"verif/harness/families/stores/bstream"
	"verif/harness/families/stores/peek"
	"verif/harness/internal/vtrace"
)

type M = vtrace.M

// ---- memory persisters keyed by path

var errClosed = errors.New("persister is closed")

type content struct {
	mu sync.Mutex
	m  map[string][]byte
}

type memPersister struct {
	c      *content
	closed bool
	mu     sync.Mutex
}

func (p *memPersister) isClosed() bool { p.mu.Lock(); defer p.mu.Unlock(); return p.closed }

func (p *memPersister) Put(key, val []byte) error {
	if p.isClosed() {
		return errClosed
	}
	p.c.mu.Lock()
	defer p.c.mu.Unlock()
	p.c.m[string(key)] = append([]byte(nil), val...)
	return nil
}

func (p *memPersister) Get(key []byte) ([]byte, error) {
	if p.isClosed() {
		return nil, errClosed
	}
	p.c.mu.Lock()
	defer p.c.mu.Unlock()
	v, ok := p.c.m[string(key)]
	if !ok {
		return nil, errors.New("key not found")
	}
	return v, nil
}

func (p *memPersister) Has(key []byte) error {
	_, err := p.Get(key)
	return err
}

func (p *memPersister) Init() error { return nil }

func (p *memPersister) Close() error {
	p.mu.Lock()
	p.closed = true
	p.mu.Unlock()
	return nil
}

func (p *memPersister) Remove(key []byte) error {
	if p.isClosed() {
		return errClosed
	}
	p.c.mu.Lock()
	defer p.c.mu.Unlock()
	delete(p.c.m, string(key)) // removing an absent key is not an error (as in leveldb)
	return nil
}

func (p *memPersister) Destroy() error {
	p.c.mu.Lock()
	p.c.m = map[string][]byte{}
	p.c.mu.Unlock()
	return p.Close()
}

func (p *memPersister) DestroyClosed() error {
	p.c.mu.Lock()
	p.c.m = map[string][]byte{}
	p.c.mu.Unlock()
	return nil
}

func (p *memPersister) RangeKeys(h func(key []byte, val []byte) bool) {}
func (p *memPersister) IsInterfaceNil() bool                          { return p == nil }

type factory struct {
	mu    sync.Mutex
	paths map[string]*content
}

func (f *factory) Create(path string) (storage.Persister, error) {
	f.mu.Lock()
	defer f.mu.Unlock()
	c, ok := f.paths[path]
	if !ok {
		c = &content{m: map[string][]byte{}}
		f.paths[path] = c
	}
	return &memPersister{c: c}, nil
}

func (f *factory) CreateDisabled() storage.Persister {
	return &memPersister{c: &content{m: map[string][]byte{}}, closed: true}
}
func (f *factory) IsInterfaceNil() bool { return f == nil }

type notifierStub struct{ h epochStart.ActionHandler }

func (n *notifierStub) RegisterHandler(h epochStart.ActionHandler) { n.h = h }
func (n *notifierStub) IsInterfaceNil() bool                       { return n == nil }

// ---- system under test

type sut struct {
	ps   *pruning.PruningStorer
	f    *factory
	n    *notifierStub
	seen map[string]bool // keys offered to Put/PutInEpoch or successfully removed (the specification's KeysSeen)
}

func epochPath(e uint32) string { return fmt.Sprintf("Epoch_%d", e) }

func pathEpoch(p string) int {
	n, err := strconv.Atoi(strings.TrimPrefix(p, "Epoch_"))
	if err != nil {
		return -1
	}
	return n
}

func newSut(nA, nK int, clean bool) (*sut, error) {
	f := &factory{paths: map[string]*content{}}
	n := &notifierStub{}
	args := &pruning.StorerArgs{
		Identifier:       "id",
		ShardCoordinator: mock.NewShardCoordinatorMock(0, 2),
		CacheConf:        storageUnit.CacheConfig{Type: storageUnit.LRUCache, Capacity: 10000},
		PathManager: &testscommon.PathManagerStub{
			PathForEpochCalled: func(_ string, epoch uint32, _ string) string { return epochPath(epoch) },
		},
		DbPath:                 "",
		PersisterFactory:       f,
		Notifier:               n,
		OldDataCleanerProvider: &testscommon.OldDataCleanerProviderStub{ShouldCleanCalled: func() bool { return clean }},
		MaxBatchSize:           10,
		NumOfEpochsToKeep:      uint32(nK),
		NumOfActivePersisters:  uint32(nA),
		StartingEpoch:          0,
		PruningEnabled:         true,
	}
	ps, err := pruning.NewPruningStorer(args)
	if err != nil {
		return nil, err
	}
	if n.h == nil {
		return nil, errors.New("the storer did not register an epoch start handler")
	}
	return &sut{ps: ps, f: f, n: n, seen: map[string]bool{}}, nil
}

func valBytes(v int) []byte { return []byte("v" + strconv.Itoa(v)) }
func valInt(b []byte) int {
	s := string(b)
	if strings.HasPrefix(s, "v") {
		if n, err := strconv.Atoi(s[1:]); err == nil {
			return n
		}
	}
	return -1
}

// ---- projection

type kvRec struct {
	K string `json:"k"`
	V int    `json:"v"`
}
type ekvRec struct {
	E int    `json:"e"`
	K string `json:"k"`
	V int    `json:"v"`
}

// pst mirrors StOf in PruningStorer.tla
type pst struct {
	Active   []int    `json:"active"`
	Mapped   []int    `json:"mapped"`
	Open     []int    `json:"open"`
	PutEpoch int      `json:"putEpoch"`
	Cache    []kvRec  `json:"cache"`
	Db       []ekvRec `json:"db"`
	Epochs   []int    `json:"epochs"`
	Has      []string `json:"has"`
	Sf       []kvRec  `json:"sf"`
	Gfe      []ekvRec `json:"gfe"`
}

type step struct {
	A   string `json:"a"`
	In  M      `json:"in"`
	Out M      `json:"out"`
	St  pst    `json:"st"`
}

func (s *pst) normalize() {
	if s.Active == nil {
		s.Active = []int{}
	}
	if s.Mapped == nil {
		s.Mapped = []int{}
	}
	if s.Open == nil {
		s.Open = []int{}
	}
	if s.Cache == nil {
		s.Cache = []kvRec{}
	}
	if s.Db == nil {
		s.Db = []ekvRec{}
	}
	if s.Epochs == nil {
		s.Epochs = []int{}
	}
	if s.Has == nil {
		s.Has = []string{}
	}
	if s.Sf == nil {
		s.Sf = []kvRec{}
	}
	if s.Gfe == nil {
		s.Gfe = []ekvRec{}
	}
	sort.Strings(s.Has)
	sort.Slice(s.Sf, func(i, j int) bool { return s.Sf[i].K < s.Sf[j].K })
	sort.Slice(s.Gfe, func(i, j int) bool {
		if s.Gfe[i].E != s.Gfe[j].E {
			return s.Gfe[i].E < s.Gfe[j].E
		}
		return s.Gfe[i].K < s.Gfe[j].K
	})
	sort.Ints(s.Mapped)
	sort.Ints(s.Open)
	sort.Ints(s.Epochs)
	sort.Slice(s.Cache, func(i, j int) bool { return s.Cache[i].K < s.Cache[j].K })
	sort.Slice(s.Db, func(i, j int) bool {
		if s.Db[i].E != s.Db[j].E {
			return s.Db[i].E < s.Db[j].E
		}
		return s.Db[i].K < s.Db[j].K
	})
}

func (s *pst) canon() string {
	b, _ := json.Marshal(s)
	return string(b)
}

func pdFields(pd reflect.Value) (epoch int, closed bool, ok bool) {
	for pd.IsValid() && pd.Kind() == reflect.Ptr {
		if pd.IsNil() {
			return 0, false, false
		}
		pd = pd.Elem()
	}
	if !pd.IsValid() || pd.Kind() != reflect.Struct {
		return 0, false, false
	}
	ef, cf := pd.FieldByName("epoch"), pd.FieldByName("isClosed")
	if !ef.IsValid() || !cf.IsValid() {
		return 0, false, false
	}
	return int(ef.Uint()), cf.Bool(), true
}

func project(s *sut) (*pst, error) {
	res := &pst{}
	act, ok1 := peek.Path(s.ps, "activePersisters")
	mp, ok2 := peek.Path(s.ps, "persistersMapByEpoch")
	pe, ok3 := peek.Path(s.ps, "epochForPutOperation")
	ca, ok4 := peek.Path(s.ps, "cacher")
	if !ok1 || !ok2 || !ok3 || !ok4 || act.Kind() != reflect.Slice || mp.Kind() != reflect.Map {
		return nil, errors.New("PruningStorer fields activePersisters/persistersMapByEpoch/epochForPutOperation/cacher not found")
	}
	open := map[int]bool{}
	for i := 0; i < act.Len(); i++ {
		e, closed, ok := pdFields(act.Index(i))
		if !ok {
			return nil, errors.New("persisterData fields epoch/isClosed not found")
		}
		res.Active = append(res.Active, e)
		if !closed {
			open[e] = true
		}
	}
	for it := mp.MapRange(); it.Next(); {
		key := int(it.Key().Uint())
		e, closed, ok := pdFields(it.Value())
		if !ok {
			return nil, errors.New("persisterData fields epoch/isClosed not found")
		}
		if e != key {
			// persistersMapByEpoch[key] holds the persister of another epoch: outside the specification's
			// assumption (epochs advance by one); make it visible as a state the specification never predicts
			res.Mapped = append(res.Mapped, -1000-key)
		}
		res.Mapped = append(res.Mapped, key)
		if !closed {
			open[e] = true
		}
	}
	for e := range open {
		res.Open = append(res.Open, e)
	}
	res.PutEpoch = int(pe.Uint())
	cacher, ok := ca.Interface().(storage.Cacher)
	if !ok {
		return nil, errors.New("cacher is not a storage.Cacher")
	}
	for _, k := range cacher.Keys() {
		v, has := cacher.Peek(k)
		if !has {
			continue
		}
		vb, _ := v.([]byte)
		res.Cache = append(res.Cache, kvRec{K: string(k), V: valInt(vb)})
	}
	keys := map[string]bool{}
	for k := range s.seen {
		keys[k] = true
	}
	for _, r := range res.Cache {
		keys[r.K] = true
	}
	maxEpoch := 0
	s.f.mu.Lock()
	for p, c := range s.f.paths {
		e := pathEpoch(p)
		if e > maxEpoch {
			maxEpoch = e
		}
		res.Epochs = append(res.Epochs, e)
		c.mu.Lock()
		for k, v := range c.m {
			res.Db = append(res.Db, ekvRec{E: e, K: k, V: valInt(v)})
			keys[k] = true
		}
		c.mu.Unlock()
	}
	s.f.mu.Unlock()
	// the reads that leave the abstract state alone, for every key seen and every epoch up to one beyond the newest
	for k := range keys {
		kb := []byte(k)
		if s.ps.Has(kb) == nil {
			res.Has = append(res.Has, k)
		}
		if v, err := s.ps.SearchFirst(kb); err == nil {
			res.Sf = append(res.Sf, kvRec{K: k, V: valInt(v)})
		}
		for e := 0; e <= maxEpoch+1; e++ {
			if v, err := s.ps.GetFromEpoch(kb, uint32(e)); err == nil {
				res.Gfe = append(res.Gfe, ekvRec{E: e, K: k, V: valInt(v)})
			}
		}
	}
	res.normalize()
	return res, nil
}

// ---- one step

func readRes(v []byte, err error) M {
	if err != nil {
		return M{"ok": false, "v": 0}
	}
	return M{"ok": true, "v": valInt(v)}
}

func apply(s *sut, a string, in M) M {
	k := []byte(vtrace.Str(in["k"]))
	v, e := vtrace.Int(in["v"]), vtrace.Int(in["e"])
	switch a {
	case "Put":
		s.seen[string(k)] = true
		return M{"ok": s.ps.Put(k, valBytes(v)) == nil}
	case "PutInEpoch":
		s.seen[string(k)] = true
		return M{"ok": s.ps.PutInEpoch(k, valBytes(v), uint32(e)) == nil}
	case "Get":
		return readRes(s.ps.Get(k))
	case "GetFromEpoch":
		return readRes(s.ps.GetFromEpoch(k, uint32(e)))
	case "GetBulkFromEpoch":
		var ks []string
		if direct, isStrs := in["ks"].([]string); isStrs {
			ks = direct
		} else {
			ks = vtrace.Strs(in["ks"])
		}
		keys := make([][]byte, len(ks))
		for i := range ks {
			keys[i] = []byte(ks[i])
		}
		res, err := s.ps.GetBulkFromEpoch(keys, uint32(e))
		if err != nil {
			return M{"ok": false, "kv": []kvRec{}}
		}
		kv := make([]kvRec, 0, len(res))
		for kk, vv := range res {
			kv = append(kv, kvRec{K: kk, V: valInt(vv)})
		}
		sort.Slice(kv, func(i, j int) bool { return kv[i].K < kv[j].K })
		return M{"ok": true, "kv": kv}
	case "SearchFirst":
		return readRes(s.ps.SearchFirst(k))
	case "Has":
		return M{"ok": s.ps.Has(k) == nil}
	case "Remove":
		ok := s.ps.Remove(k) == nil
		if ok {
			s.seen[string(k)] = true
		}
		return M{"ok": ok}
	case "ClearCache":
		s.ps.ClearCache()
		return M{"x": 0}
	case "SetEpochForPut":
		s.ps.SetEpochForPutOperation(uint32(e))
		return M{"x": 0}
	case "Prepare":
		o := uint32(vtrace.Int(in["o"]))
		s.n.h.EpochStartPrepare(&block.MetaBlock{Epoch: o,
			EpochStart: block.EpochStart{LastFinalizedHeaders: []block.EpochStartShardData{{Epoch: o}}}}, nil)
		return M{"x": 0}
	case "ChangeEpoch":
		ho := vtrace.Int(in["ho"])
		if ho < 0 {
			s.n.h.EpochStartAction(&block.Header{Epoch: uint32(e)})
		} else {
			s.n.h.EpochStartAction(&block.MetaBlock{Epoch: uint32(e),
				EpochStart: block.EpochStart{LastFinalizedHeaders: []block.EpochStartShardData{{ShardID: 0, Epoch: uint32(ho)}}}})
		}
		return M{"x": 0}
	case "Close":
		_ = s.ps.Close()
		return M{"x": 0}
	}
	panic("unknown action " + a)
}

func canonOut(m M) string {
	if kv, ok := m["kv"]; ok { // a set of pairs
		b, _ := json.Marshal(kv)
		var arr []kvRec
		_ = json.Unmarshal(b, &arr)
		sort.Slice(arr, func(i, j int) bool { return arr[i].K < arr[j].K })
		c := M{}
		for k, v := range m {
			c[k] = v
		}
		c["kv"] = arr
		m = c
	}
	b, _ := json.Marshal(m)
	return string(b)
}

type ev struct {
	a       string
	in, out M
	st      *pst
}

func sortedKeys(m map[string]bool) []string {
	r := make([]string, 0, len(m))
	for k := range m {
		r = append(r, k)
	}
	sort.Strings(r)
	return r
}

// replay: with all=true every behaviour is also written as an observed trace (used for the witnesses of the
// named deviations: TLC then evaluates the C30 invariants on what the real storer did)
func replay(path, suspects string, all bool) {
	sw, err := vtrace.NewWriter(suspects)
	if err != nil {
		vtrace.Broken(err.Error())
		return
	}
	distinct := vtrace.NewDistinct()
	steps, mism, nb, followed := 0, 0, 0, 0
	var lastB []step
	err = bstream.Lines(path, func(bi int, line []byte) (bool, error) {
		var b []step
		if e := json.Unmarshal(line, &b); e != nil {
			return false, e
		}
		nb++
		lastB = b
		var s *sut
		var log []ev
		bad := -1
		for si := range b {
			st := &b[si]
			st.St.normalize()
			if st.A == "New" {
				var nerr error
				s, nerr = newSut(vtrace.Int(st.In["nA"]), vtrace.Int(st.In["nK"]), st.In["clean"] == true)
				if nerr != nil {
					vtrace.Broken(fmt.Sprintf("NewPruningStorer rejected a configuration the specification allows: %v %v", st.In, nerr))
					return false, nil
				}
				pr, perr := project(s)
				if perr != nil {
					vtrace.Broken("projection failed: " + perr.Error())
					return false, nil
				}
				log = append(log, ev{"New", st.In, M{"x": 0}, pr})
				if st.St.canon() != pr.canon() {
					bad = si
				}
				continue
			}
			got := apply(s, st.A, st.In)
			steps++
			pr, perr := project(s)
			if perr != nil {
				vtrace.Broken("projection failed: " + perr.Error())
				return false, nil
			}
			log = append(log, ev{st.A, st.In, got, pr})
			if bad < 0 && (canonOut(st.Out) != canonOut(got) || st.St.canon() != pr.canon()) {
				bad = si
			}
		}
		if bad >= 0 {
			mism++
		} else {
			followed++
		}
		if bad >= 0 || all {
			// closing probes: a plain Get of every key seen (Get fills the cache, so it is only asked at the end);
			// the answers are events of the observed trace like any other call
			for _, k := range sortedKeys(s.seen) {
				in := M{"k": k}
				got := apply(s, "Get", in)
				if pr, perr := project(s); perr == nil {
					log = append(log, ev{"Get", in, got, pr})
				}
			}
			for i, e := range log {
				if i == 0 {
					sw.NewTraceWith(e.a, e.in, e.out, e.st)
				} else {
					sw.Emit(e.a, e.in, e.out, e.st)
				}
			}
			if bad >= 0 && mism <= 3 && !all {
				vtrace.Drift("C30", fmt.Sprintf("behaviour %d step %d (%s %v): real storer answered %s, state %s; specification predicted %s, state %s",
					bi, bad, b[bad].A, b[bad].In, canonOut(log[bad].out), log[bad].st.canon(), canonOut(b[bad].Out), b[bad].St.canon()), nil)
			}
		}
		if len(b) > 1 {
			last := b[len(b)-1]
			distinct.Add(fmt.Sprint(b[0].In, b[len(b)-2].St.canon(), last.A, last.In))
		}
		if bi < 2 {
			vtrace.Sample("C30", b)
		}
		return true, nil
	})
	if err != nil {
		vtrace.Broken(err.Error())
		return
	}
	if nb > 2 {
		vtrace.Sample("C30", lastB)
	}
	if err := sw.Close(); err != nil {
		vtrace.Broken(err.Error())
	}
	vtrace.Stat("behaviours", nb)
	vtrace.Stat("steps", steps)
	vtrace.Stat("distinct_transitions", distinct.Len())
	vtrace.Stat("mismatching_behaviours", mism)
	vtrace.Stat("followed_behaviours", followed)
	vtrace.Stat("suspect_events", sw.N)
}

func record(seed int64, traces, n int, out string) {
	w, err := vtrace.NewWriter(out)
	if err != nil {
		vtrace.Broken(err.Error())
		return
	}
	rng := rand.New(rand.NewSource(seed))
	distinct := vtrace.NewDistinct()
	allKeys := []string{"a", "b", "c", "d", "e"}
	for t := 0; t < traces; t++ {
		nA := 1 + rng.Intn(3)
		nK := nA + rng.Intn(3)
		clean := rng.Intn(3) != 0
		nk := 1 + rng.Intn(len(allKeys))
		s, err := newSut(nA, nK, clean)
		if err != nil {
			vtrace.Broken(err.Error())
			return
		}
		pr, perr := project(s)
		if perr != nil {
			vtrace.Broken("projection failed: " + perr.Error())
			return
		}
		w.NewTraceWith("New", M{"nA": nA, "nK": nK, "clean": clean}, M{"x": 0}, pr)
		epoch := 0
		stuckProb := rng.Intn(4) // how often an epoch change reports a stuck shard
		for i := 0; i < n; i++ {
			k := allKeys[rng.Intn(nk)]
			someEpoch := func() int {
				if rng.Intn(6) == 0 {
					return epoch + 1 + rng.Intn(2)
				}
				lo := epoch - nK - 1
				if lo < 0 {
					lo = 0
				}
				return lo + rng.Intn(epoch-lo+1)
			}
			var a string
			var in M
			switch r := rng.Intn(100); {
			case r < 22:
				a, in = "Put", M{"k": k, "v": 1 + rng.Intn(3)}
			case r < 28:
				a, in = "PutInEpoch", M{"k": k, "v": 1 + rng.Intn(3), "e": someEpoch()}
			case r < 40:
				a, in = "Get", M{"k": k}
			case r < 48:
				a, in = "GetFromEpoch", M{"k": k, "e": someEpoch()}
			case r < 52:
				a, in = "GetBulkFromEpoch", M{"ks": allKeys[:nk], "e": someEpoch()}
			case r < 60:
				a, in = "SearchFirst", M{"k": k}
			case r < 66:
				a, in = "Has", M{"k": k}
			case r < 76:
				a, in = "Remove", M{"k": k}
			case r < 84:
				a, in = "ClearCache", M{"x": 0}
			case r < 88:
				e := epoch
				if rng.Intn(4) == 0 {
					e = someEpoch()
				}
				a, in = "SetEpochForPut", M{"e": e}
			case r < 91:
				o := epoch + 1 - rng.Intn(4)
				if o < 0 {
					o = 0
				}
				a, in = "Prepare", M{"o": o}
			default:
				e := epoch + 1
				if rng.Intn(12) == 0 {
					e = epoch // duplicate notification
				}
				ho := -1
				if stuckProb > 0 && rng.Intn(4) < stuckProb {
					ho = e - rng.Intn(4)
					if ho < 0 {
						ho = 0
					}
				}
				a, in = "ChangeEpoch", M{"e": e, "ho": ho}
				epoch = e
			}
			got := apply(s, a, in)
			pr, perr := project(s)
			if perr != nil {
				vtrace.Broken("projection failed: " + perr.Error())
				return
			}
			w.Emit(a, in, got, pr)
			distinct.Add(fmt.Sprint(a, in, nA, nK, clean))
		}
		for _, k := range sortedKeys(s.seen) { // closing probes, as in replay
			in := M{"k": k}
			got := apply(s, "Get", in)
			if pr, perr := project(s); perr == nil {
				w.Emit("Get", in, got, pr)
			}
		}
	}
	if err := w.Close(); err != nil {
		vtrace.Broken(err.Error())
	}
	vtrace.Stat("events", w.N)
	vtrace.Stat("traces", traces)
	vtrace.Stat("distinct", distinct.Len())
}

func main() {
	vtrace.Quiet()
	if len(os.Args) < 2 {
		fmt.Fprintln(os.Stderr, "usage: vh-pruningstorer replay|record ...")
		os.Exit(2)
	}
	switch os.Args[1] {
	case "replay":
		replay(os.Args[2], os.Args[3], len(os.Args) > 4 && os.Args[4] == "all")
	case "record":
		seed, _ := strconv.ParseInt(os.Args[2], 10, 64)
		traces, _ := strconv.Atoi(os.Args[3])
		n, _ := strconv.Atoi(os.Args[4])
		record(seed, traces, n, os.Args[5])
	default:
		os.Exit(2)
	}
}
