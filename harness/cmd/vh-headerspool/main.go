// vh-headerspool binds specs/HeadersPool to dataRetriever/dataPool/headersCache.headersPool (property C29).
//
//	vh-headerspool replay <behaviours.ndjson> <suspects.ndjson>  TLC behaviours -> real pool; compares answer + projected indexes per step
//	vh-headerspool record <seed> <traces> <len> <out.ndjson>     random histories on the real pool -> trace for Trace_HeadersPool
//	vh-headerspool race <scenarios.ndjson> <iters>               TLC-enumerated concurrent scenarios under the race detector
//	vh-headerspool batch <iters> <file> <from> <to>              (child of `race`)
//
// The projection reads the three unexported indexes (headersByHash, headersNonceCache, headersCounter) and the
// per-nonce timestamps by reflection: no hook file, and -- unlike GetHeaderByHash/GetHeadersByNonceAndShardId, which
// refresh timestamps -- without perturbing the pool.
package main

import (
	"encoding/json"
	"fmt"
	"math/rand"
	"os"
	"reflect"
	"regexp"
	"runtime/pprof"
	"sort"
	"strconv"
	"strings"
	"time"

	"github.com/ElrondNetwork/elrond-go/config"
	"github.com/ElrondNetwork/elrond-go/core"
	"github.com/ElrondNetwork/elrond-go/data"
	"github.com/ElrondNetwork/elrond-go/data/block"
	"github.com/ElrondNetwork/elrond-go/dataRetriever"
	"github.com/ElrondNetwork/elrond-go/dataRetriever/dataPool/headersCache"
	"verif/harness/families/stores/bstream"
	"verif/harness/families/stores/peek"
	"verif/harness/families/stores/racerun"
	"verif/harness/internal/vtrace"
)

type M = vtrace.M

// ---- concretisation: small shard numbers / hash ids of the specification <-> real values

func realShard(s int) uint32 {
	if s == 2 {
		return core.MetachainShardId
	}
	return uint32(s)
}

func specShard(s uint32) int {
	if s == core.MetachainShardId {
		return 2
	}
	return int(s)
}

func realHash(h int) []byte {
	if h == 0 {
		return []byte{}
	}
	return []byte(fmt.Sprintf("hash-%06d", h))
}

func specHash(b []byte) int {
	s := string(b)
	if strings.HasPrefix(s, "hash-") {
		n, err := strconv.Atoi(s[5:])
		if err == nil {
			return n
		}
	}
	return -1
}

func header(s int, n int) data.HeaderHandler {
	if s == 2 {
		return &block.MetaBlock{Nonce: uint64(n)}
	}
	return &block.Header{ShardID: realShard(s), Nonce: uint64(n)}
}

func newPool(max, rem int) (dataRetriever.HeadersPool, error) {
	return headersCache.NewHeadersPool(config.HeadersPoolConfig{MaxHeadersPerShard: max, NumElementsToRemoveOnEviction: rem})
}

// tick makes sure the next time.Now() is strictly later than every timestamp taken so far, so that the
// recency order of the pool is the order of the calls (no ties for sort.Slice to break arbitrarily).
func tick() {
	t := time.Now()
	for !time.Now().After(t) {
	}
}

// ---- projection by reflection (typed: the replay compares ~10^5 states)

type bhRec struct {
	H int `json:"h"`
	S int `json:"s"`
	N int `json:"n"`
}
type listRec struct {
	S  int       `json:"s"`
	N  int       `json:"n"`
	Hs []int     `json:"hs"`
	ts time.Time // not exported to JSON
}
type cntRec struct {
	S int `json:"s"`
	C int `json:"c"`
}
type ordRec struct {
	S  int   `json:"s"`
	Ns []int `json:"ns"`
}

// pst is the projected abstract state: the same four sets of records as StOf in HeadersPool.tla.
type pst struct {
	ByHash []bhRec   `json:"byHash"`
	Lists  []listRec `json:"lists"`
	Cnt    []cntRec  `json:"cnt"`
	Order  []ordRec  `json:"order"`
}

// step is a behaviour record with a typed state.
type step struct {
	A   string `json:"a"`
	In  M      `json:"in"`
	Out M      `json:"out"`
	St  pst    `json:"st"`
}

func (s *pst) normalize() {
	if s.ByHash == nil {
		s.ByHash = []bhRec{}
	}
	if s.Lists == nil {
		s.Lists = []listRec{}
	}
	if s.Cnt == nil {
		s.Cnt = []cntRec{}
	}
	if s.Order == nil {
		s.Order = []ordRec{}
	}
	for i := range s.Lists {
		if s.Lists[i].Hs == nil {
			s.Lists[i].Hs = []int{}
		}
	}
	sort.Slice(s.ByHash, func(i, j int) bool { return s.ByHash[i].H < s.ByHash[j].H })
	sort.Slice(s.Lists, func(i, j int) bool {
		if s.Lists[i].S != s.Lists[j].S {
			return s.Lists[i].S < s.Lists[j].S
		}
		return s.Lists[i].N < s.Lists[j].N
	})
	sort.Slice(s.Cnt, func(i, j int) bool { return s.Cnt[i].S < s.Cnt[j].S })
	sort.Slice(s.Order, func(i, j int) bool { return s.Order[i].S < s.Order[j].S })
}

// canon is the canonical text of a (normalized) state.
func (s *pst) canon() string {
	var sb strings.Builder
	w := func(xs ...int) {
		for _, x := range xs {
			sb.WriteString(strconv.Itoa(x))
			sb.WriteByte(' ')
		}
	}
	sb.WriteString("byHash:")
	for _, r := range s.ByHash {
		w(r.H, r.S, r.N)
		sb.WriteByte(';')
	}
	sb.WriteString(" lists:")
	for _, r := range s.Lists {
		w(r.S, r.N)
		sb.WriteByte('[')
		w(r.Hs...)
		sb.WriteString("];")
	}
	sb.WriteString(" cnt:")
	for _, r := range s.Cnt {
		w(r.S, r.C)
		sb.WriteByte(';')
	}
	sb.WriteString(" order:")
	for _, r := range s.Order {
		w(r.S)
		sb.WriteByte('[')
		w(r.Ns...)
		sb.WriteString("];")
	}
	return sb.String()
}

func project(p dataRetriever.HeadersPool) (*pst, error) {
	cache, ok := peek.Path(p, "cache")
	if !ok {
		return nil, fmt.Errorf("headersPool.cache not found")
	}
	byHashV, ok1 := peek.Field(cache, "headersByHash")
	nonceV, ok2 := peek.Field(cache, "headersNonceCache")
	cntV, ok3 := peek.Field(cache, "headersCounter")
	if !ok1 || !ok2 || !ok3 || byHashV.Kind() != reflect.Map || nonceV.Kind() != reflect.Map || cntV.Kind() != reflect.Map {
		return nil, fmt.Errorf("headersCache index fields not found")
	}
	res := &pst{}
	for it := byHashV.MapRange(); it.Next(); {
		info := it.Value()
		nf, sf := info.FieldByName("headerNonce"), info.FieldByName("headerShardId")
		if !nf.IsValid() || !sf.IsValid() {
			return nil, fmt.Errorf("headerInfo fields not found")
		}
		res.ByHash = append(res.ByHash, bhRec{H: specHash([]byte(it.Key().String())), S: specShard(uint32(sf.Uint())), N: int(nf.Uint())})
	}
	for it := nonceV.MapRange(); it.Next(); {
		s := specShard(uint32(it.Key().Uint()))
		inner := it.Value()
		if inner.Kind() != reflect.Map {
			return nil, fmt.Errorf("inner nonce map has kind %v", inner.Kind())
		}
		var ls []listRec
		for jt := inner.MapRange(); jt.Next(); {
			c := reflect.New(jt.Value().Type()).Elem()
			c.Set(jt.Value())
			items, okI := peek.Field(c, "items")
			tsV, okT := peek.Field(c, "timestamp")
			if !okI || !okT {
				return nil, fmt.Errorf("timestampedListOfHeaders fields not found")
			}
			ts, okTime := tsV.Interface().(time.Time)
			if !okTime {
				return nil, fmt.Errorf("timestamp is not a time.Time")
			}
			lr := listRec{S: s, N: int(jt.Key().Uint()), ts: ts, Hs: []int{}}
			for i := 0; i < items.Len(); i++ {
				hh := items.Index(i).FieldByName("headerHash")
				if !hh.IsValid() {
					return nil, fmt.Errorf("headerDetails.headerHash not found")
				}
				lr.Hs = append(lr.Hs, specHash(hh.Bytes()))
			}
			ls = append(ls, lr)
		}
		if len(ls) == 0 {
			continue
		}
		res.Lists = append(res.Lists, ls...)
		sort.Slice(ls, func(i, j int) bool {
			if ls[i].ts.Equal(ls[j].ts) {
				return ls[i].N < ls[j].N
			}
			return ls[i].ts.Before(ls[j].ts)
		})
		ns := make([]int, len(ls))
		for i := range ls {
			ns[i] = ls[i].N
		}
		res.Order = append(res.Order, ordRec{S: s, Ns: ns})
	}
	for it := cntV.MapRange(); it.Next(); {
		if c := it.Value().Uint(); c != 0 {
			cc := int64(c)
			if cc > 1<<30 || cc < 0 {
				cc = -1 // wrapped-around unsigned counter; keep it inside TLC's integers
			}
			res.Cnt = append(res.Cnt, cntRec{S: specShard(uint32(it.Key().Uint())), C: int(cc)})
		}
	}
	res.normalize()
	return res, nil
}

func roundTrip(v interface{}) interface{} {
	b, _ := json.Marshal(v)
	var r interface{}
	_ = json.Unmarshal(b, &r)
	return r
}

// ---- one step on the real pool

func apply(p dataRetriever.HeadersPool, a string, in M) M {
	h, s, n := vtrace.Int(in["h"]), vtrace.Int(in["s"]), vtrace.Int(in["n"])
	switch a {
	case "AddHeader":
		p.AddHeader(realHash(h), header(s, n))
		return M{}
	case "RemoveHeaderByHash":
		p.RemoveHeaderByHash(realHash(h))
		return M{"x": 0}
	case "RemoveHeaderByNonce":
		p.RemoveHeaderByNonceAndShardId(uint64(n), realShard(s))
		return M{"x": 0}
	case "GetHeaderByHash":
		hd, err := p.GetHeaderByHash(realHash(h))
		if err != nil || hd == nil {
			return M{"ok": false, "s": 0, "n": 0}
		}
		return M{"ok": true, "s": specShard(hd.GetShardID()), "n": int(hd.GetNonce())}
	case "GetHeadersByNonce":
		hds, hashes, err := p.GetHeadersByNonceAndShardId(uint64(n), realShard(s))
		if err != nil {
			return M{"ok": false, "hs": []int{}}
		}
		hs := make([]int, len(hashes))
		for i := range hashes {
			hs[i] = specHash(hashes[i])
			if i < len(hds) && (hds[i] == nil || specShard(hds[i].GetShardID()) != s || int(hds[i].GetNonce()) != n) {
				hs[i] = -2 // a header of another shard/nonce was returned under this shard/nonce
			}
		}
		return M{"ok": true, "hs": hs}
	case "GetNumHeaders":
		return M{"c": p.GetNumHeaders(realShard(s))}
	case "Nonces":
		ns := p.Nonces(realShard(s))
		r := make([]int, len(ns))
		for i := range ns {
			r[i] = int(ns[i])
		}
		sort.Ints(r)
		return M{"ns": r}
	case "Len":
		return M{"c": p.Len()}
	case "Clear":
		p.Clear()
		return M{"x": 0}
	}
	panic("unknown action " + a)
}

func eqOut(pred, got M) bool {
	for k, g := range got {
		pv, ok := pred[k]
		if !ok {
			return false
		}
		if k == "ns" {
			a := vtrace.SortedInts(vtrace.Ints(pv))
			b := vtrace.SortedInts(vtrace.Ints(roundTrip(g)))
			if !vtrace.EqInts(a, b) {
				return false
			}
			continue
		}
		pb, _ := json.Marshal(pv)
		gb, _ := json.Marshal(g)
		if string(pb) != string(gb) {
			return false
		}
	}
	return true
}

type ev struct {
	a       string
	in, out M
	st      *pst
}

func replay(path, suspects string) {
	sw, err := vtrace.NewWriter(suspects)
	if err != nil {
		vtrace.Broken(err.Error())
		return
	}
	distinct := vtrace.NewDistinct()
	steps, mism, nb := 0, 0, 0
	var lastB []step
	err = bstream.Lines(path, func(bi int, line []byte) (bool, error) {
		var b []step
		if e := json.Unmarshal(line, &b); e != nil {
			return false, e
		}
		nb++
		lastB = b
		var p dataRetriever.HeadersPool
		var log []ev
		bad := -1
		for si := range b {
			st := &b[si]
			st.St.normalize()
			if st.A == "New" {
				var perr error
				p, perr = newPool(vtrace.Int(st.In["max"]), vtrace.Int(st.In["rem"]))
				if perr != nil {
					vtrace.Broken(fmt.Sprintf("NewHeadersPool rejected a configuration the specification allows: %v %v", st.In, perr))
					return false, nil
				}
				pr, perr := project(p)
				if perr != nil {
					vtrace.Broken("projection of the real pool failed: " + perr.Error())
					return false, nil
				}
				log = append(log, ev{"New", st.In, M{"x": 0}, pr})
				continue
			}
			tick()
			got := apply(p, st.A, st.In)
			steps++
			pr, perr := project(p)
			if perr != nil {
				vtrace.Broken("projection of the real pool failed: " + perr.Error())
				return false, nil
			}
			log = append(log, ev{st.A, st.In, got, pr})
			if bad < 0 && (!eqOut(st.Out, got) || st.St.canon() != pr.canon()) {
				bad = si
			}
		}
		if bad >= 0 {
			mism++
			for i, e := range log {
				if i == 0 {
					sw.NewTraceWith(e.a, e.in, e.out, e.st)
				} else {
					sw.Emit(e.a, e.in, e.out, e.st)
				}
			}
			if mism <= 3 {
				vtrace.Drift("C29", fmt.Sprintf("behaviour %d step %d (%s %v): real pool answered %v, state %s; specification predicted %v, state %s",
					bi, bad, b[bad].A, b[bad].In, log[bad].out, log[bad].st.canon(), b[bad].Out, b[bad].St.canon()), nil)
			}
		}
		if len(b) > 1 {
			last := b[len(b)-1]
			distinct.Add(fmt.Sprint(b[0].In, b[len(b)-2].St.canon(), last.A, last.In))
		}
		if bi < 2 {
			vtrace.Sample("C29", b)
		}
		return true, nil
	})
	if err != nil {
		vtrace.Broken(err.Error())
		return
	}
	if nb > 2 {
		vtrace.Sample("C29", lastB)
	}
	if err := sw.Close(); err != nil {
		vtrace.Broken(err.Error())
	}
	vtrace.Stat("behaviours", nb)
	vtrace.Stat("steps", steps)
	vtrace.Stat("distinct_transitions", distinct.Len())
	vtrace.Stat("mismatching_behaviours", mism)
	vtrace.Stat("suspect_events", sw.N)
}

func record(seed int64, traces, n int, out string) {
	w, err := vtrace.NewWriter(out)
	if err != nil {
		vtrace.Broken(err.Error())
		return
	}
	rng := rand.New(rand.NewSource(seed))
	distinct := vtrace.NewDistinct()
	for t := 0; t < traces; t++ {
		max := 1 + rng.Intn(7)
		rem := 1 + rng.Intn(max)
		nh := 4 + rng.Intn(12)
		nn := 2 + rng.Intn(5)
		ns := 1 + rng.Intn(3)
		p, err := newPool(max, rem)
		if err != nil {
			vtrace.Broken(err.Error())
			return
		}
		pr, perr := project(p)
		if perr != nil {
			vtrace.Broken("projection of the real pool failed: " + perr.Error())
			return
		}
		w.NewTraceWith("New", M{"max": max, "rem": rem}, M{"x": 0}, pr)
		// a header keeps its (shard, nonce) most of the time; sometimes the same hash is offered under another one
		home := make([][2]int, nh+1)
		for h := 1; h <= nh; h++ {
			home[h] = [2]int{rng.Intn(ns), 1 + rng.Intn(nn)}
		}
		for i := 0; i < n; i++ {
			h := 1 + rng.Intn(nh)
			if rng.Intn(40) == 0 {
				h = 0
			}
			s, nonce := rng.Intn(ns), 1+rng.Intn(nn)
			var a string
			var in M
			switch r := rng.Intn(100); {
			case r < 42:
				a = "AddHeader"
				if h > 0 && rng.Intn(8) != 0 {
					s, nonce = home[h][0], home[h][1]
				}
				in = M{"h": h, "s": s, "n": nonce}
			case r < 52:
				a, in = "RemoveHeaderByHash", M{"h": h}
			case r < 60:
				a, in = "RemoveHeaderByNonce", M{"n": nonce, "s": s}
			case r < 72:
				a, in = "GetHeaderByHash", M{"h": h}
			case r < 82:
				a, in = "GetHeadersByNonce", M{"n": nonce, "s": s}
			case r < 87:
				a, in = "GetNumHeaders", M{"s": s}
			case r < 93:
				a, in = "Nonces", M{"s": rng.Intn(ns + 1)}
			case r < 98:
				a, in = "Len", M{"x": 0}
			default:
				a, in = "Clear", M{"x": 0}
			}
			tick()
			got := apply(p, a, in)
			pr, perr := project(p)
			if perr != nil {
				vtrace.Broken("projection of the real pool failed: " + perr.Error())
				return
			}
			w.Emit(a, in, got, pr)
			distinct.Add(fmt.Sprint(a, in, max, rem))
		}
	}
	if err := w.Close(); err != nil {
		vtrace.Broken(err.Error())
	}
	vtrace.Stat("events", w.N)
	vtrace.Stat("traces", traces)
	vtrace.Stat("distinct", distinct.Len())
}

// ---- race half

var methodRe = regexp.MustCompile(`headersCache\.\(\*headersPool\)\.(\w+)$`)

func describe(op string) string {
	name, class := op, ""
	if i := strings.Index(op, ":"); i >= 0 {
		name, class = op[:i], op[i+1:]
	}
	switch class {
	case "unseen":
		return name + "(shard never seen before)"
	case "known":
		return name + "(known shard)"
	case "present":
		return name + "(present hash)"
	case "absent":
		return name + "(absent hash)"
	case "new":
		return name + "(new hash, known shard)"
	case "dup":
		return name + "(hash already in pool)"
	}
	return name + "()"
}

// setup creates a fresh prefilled pool for one scenario and the factory of goroutine bodies
func setup(nGoroutines int) (interface{}, func(op string, g int) func(i int)) {
	p, err := newPool(64, 10)
	if err != nil {
		panic(err)
	}
	// prefill: shards 0, 1 and metachain, nonces 1..10, two headers per nonce
	for _, s := range []int{0, 1, 2} {
		for n := 1; n <= 10; n++ {
			for k := 0; k < 2; k++ {
				p.AddHeader([]byte(fmt.Sprintf("pre-%d-%d-%d", s, n, k)), header(s, n))
			}
		}
	}
	own := 30
	for g := 0; g < nGoroutines; g++ { // each goroutine owns `own` hashes in a shard of its own (for RemoveHeaderByHash:present)
		for i := 0; i < own; i++ {
			p.AddHeader([]byte(fmt.Sprintf("own-%d-%d", g, i)), &block.Header{ShardID: uint32(10 + g), Nonce: uint64(i % 7)})
		}
	}
	return p, func(op string, g int) func(i int) {
		unseen := func(i int) uint32 { return uint32(1000 + g*1000000 + i) }
		switch op {
		case "AddHeader:new":
			return func(i int) { p.AddHeader([]byte(fmt.Sprintf("new-%d-%d", g, i)), header(0, 1+i%10)) }
		case "AddHeader:dup":
			return func(i int) { p.AddHeader([]byte("pre-1-3-1"), header(1, 3)) }
		case "AddHeader:unseen":
			return func(i int) {
				p.AddHeader([]byte(fmt.Sprintf("uns-%d-%d", g, i)), &block.Header{ShardID: unseen(i), Nonce: 1})
			}
		case "RemoveHeaderByHash:present":
			return func(i int) { p.RemoveHeaderByHash([]byte(fmt.Sprintf("own-%d-%d", g, i%own))) }
		case "RemoveHeaderByHash:absent":
			return func(i int) { p.RemoveHeaderByHash([]byte(fmt.Sprintf("nope-%d-%d", g, i))) }
		case "RemoveHeaderByNonce:known":
			return func(i int) { p.RemoveHeaderByNonceAndShardId(uint64(1+i%10), 1) }
		case "RemoveHeaderByNonce:unseen":
			return func(i int) { p.RemoveHeaderByNonceAndShardId(1, unseen(i)) }
		case "GetHeadersByNonce:known":
			return func(i int) { _, _, _ = p.GetHeadersByNonceAndShardId(uint64(1+i%10), core.MetachainShardId) }
		case "GetHeadersByNonce:unseen":
			return func(i int) { _, _, _ = p.GetHeadersByNonceAndShardId(1, unseen(i)) }
		case "GetHeaderByHash:present":
			return func(i int) { _, _ = p.GetHeaderByHash([]byte(fmt.Sprintf("pre-2-%d-%d", 1+i%10, i%2))) }
		case "GetHeaderByHash:absent":
			return func(i int) { _, _ = p.GetHeaderByHash([]byte(fmt.Sprintf("nope-%d-%d", g, i))) }
		case "GetNumHeaders:known":
			return func(i int) { _ = p.GetNumHeaders(uint32(i % 2)) }
		case "GetNumHeaders:unseen":
			return func(i int) { _ = p.GetNumHeaders(unseen(i)) }
		case "Nonces:known":
			return func(i int) { _ = p.Nonces(uint32(i % 2)) }
		case "Nonces:unseen":
			return func(i int) { _ = p.Nonces(unseen(i)) }
		case "Len":
			return func(i int) { _ = p.Len() }
		case "MaxSize":
			return func(i int) { _ = p.MaxSize() }
		case "Clear":
			return func(i int) { p.Clear() }
		case "RegisterHandler":
			return func(i int) {
				if i < 8 {
					p.RegisterHandler(func(_ data.HeaderHandler, _ []byte) {})
				}
			}
		}
		return nil
	}
}

func main() {
	vtrace.Quiet()
	if len(os.Args) < 2 {
		fmt.Fprintln(os.Stderr, "usage: vh-headerspool replay|record|race|one ...")
		os.Exit(2)
	}
	if pf := os.Getenv("VERIF_PPROF"); pf != "" {
		f, _ := os.Create(pf)
		_ = pprof.StartCPUProfile(f)
		defer pprof.StopCPUProfile()
	}
	switch os.Args[1] {
	case "replay":
		replay(os.Args[2], os.Args[3])
	case "record":
		seed, _ := strconv.ParseInt(os.Args[2], 10, 64)
		traces, _ := strconv.Atoi(os.Args[3])
		n, _ := strconv.Atoi(os.Args[4])
		record(seed, traces, n, os.Args[5])
	case "race":
		sc, err := racerun.ReadScenarios(os.Args[2])
		if err != nil {
			vtrace.Broken(err.Error())
			return
		}
		iters, _ := strconv.Atoi(os.Args[3])
		sort.SliceStable(sc, func(i, j int) bool { return len(sc[i].Ops) < len(sc[j].Ops) })
		racerun.Drive("C29", os.Args[0], sc, iters, methodRe, describe)
	case "batch":
		iters, _ := strconv.Atoi(os.Args[2])
		from, _ := strconv.Atoi(os.Args[4])
		to, _ := strconv.Atoi(os.Args[5])
		racerun.ChildBatch(os.Args[3], from, to, iters, setup)
	default:
		os.Exit(2)
	}
}
