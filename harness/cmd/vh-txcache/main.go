// vh-txcache binds specs/TxCache to storage/txcache.TxCache.
//
//	vh-txcache replay <inputs.ndjson> <trace-out.ndjson> sync|async
//	    TLC-generated behaviours (only the calls and their arguments are used) drive the real cache; what the
//	    cache returned and its projected state after every call are recorded as a trace for Trace_TxCache.
//	vh-txcache record <seed> <traces> <len> <trace-out.ndjson> sync|async
//	    seeded random histories (more senders, nonces, sizes; realistic gas values) recorded the same way.
//
// sync: the sweep that SelectTransactions starts in a goroutine runs right after the selection (a Sweep event is
// inserted whenever the selection collected something); async: Sweep only where the behaviour/driver says so, i.e.
// other calls may run between a selection and its sweep (a schedule of the real code).
//
// No model logic here: the harness drives, projects (proj) and logs. TLC decides.
package main

import (
	"bufio"
	"encoding/binary"
	"encoding/json"
	"fmt"
	"io"
	"math/rand"
	"os"
	"sort"
	"strconv"

	"github.com/ElrondNetwork/elrond-go/data/transaction"
	"github.com/ElrondNetwork/elrond-go/storage/txcache"
	"github.com/ElrondNetwork/elrond-go/testscommon/txcachemocks"
	"verif/harness/internal/vtrace"
)

type M = vtrace.M

const minGasPrice = uint64(1000000000)
const minGasLimit = uint64(50000)

type txKey struct{ s, n, p, z int }

type sut struct {
	c      *txcache.TxCache
	byHash map[string]txKey
	known  []txKey
	seen   map[txKey]bool
}

func senderAddr(s int) []byte {
	b := make([]byte, 32)
	binary.LittleEndian.PutUint64(b, uint64(s))
	binary.LittleEndian.PutUint64(b[24:], uint64(s))
	return b
}

func senderOf(addr string) int { return int(binary.LittleEndian.Uint64([]byte(addr))) }

func txHash(k txKey) []byte { return []byte(fmt.Sprintf("tx/%d/%d/%d/%d", k.s, k.n, k.p, k.z)) }

func (k txKey) m() M { return M{"s": k.s, "n": k.n, "p": k.p, "z": k.z} }

func keyOf(v interface{}) txKey {
	m := v.(map[string]interface{})
	return txKey{vtrace.Int(m["s"]), vtrace.Int(m["n"]), vtrace.Int(m["p"]), vtrace.Int(m["z"])}
}

func newSut(cfg M) (*sut, bool) {
	conf := txcache.ConfigSourceMe{
		Name:                          "verif",
		NumChunks:                     4,
		EvictionEnabled:               cfg["ev"].(bool),
		NumBytesThreshold:             uint32(vtrace.Int(cfg["nb"])),
		CountThreshold:                uint32(vtrace.Int(cfg["cnt"])),
		NumBytesPerSenderThreshold:    uint32(vtrace.Int(cfg["sb"])),
		CountPerSenderThreshold:       uint32(vtrace.Int(cfg["sc"])),
		NumSendersToPreemptivelyEvict: uint32(vtrace.Int(cfg["ne"])),
	}
	gas := &txcachemocks.TxGasHandlerMock{MinimumGasMove: minGasLimit, MinimumGasPrice: minGasPrice, GasProcessingDivisor: 100}
	c, err := txcache.NewTxCache(conf, gas)
	s := &sut{c: c, byHash: map[string]txKey{}, seen: map[txKey]bool{}}
	// the grace period is a pair of constants of the code: part of the logged configuration
	lo, hi := txcache.VerifGracePeriod()
	cfg["glo"], cfg["ghi"] = int(lo), int(hi)
	return s, err == nil
}

func (s *sut) wrap(k txKey) *txcache.WrappedTransaction {
	if !s.seen[k] {
		s.seen[k] = true
		s.known = append(s.known, k)
		s.byHash[string(txHash(k))] = k
	}
	tx := &transaction.Transaction{
		SndAddr:  senderAddr(k.s),
		Nonce:    uint64(k.n),
		GasPrice: minGasPrice * uint64(k.p),
		GasLimit: minGasLimit + uint64(1000*k.z),
	}
	return &txcache.WrappedTransaction{Tx: tx, TxHash: txHash(k), Size: int64(k.z)}
}

func (s *sut) txsOf(hashes [][]byte) []interface{} {
	r := make([]interface{}, 0, len(hashes))
	for _, h := range hashes {
		k, ok := s.byHash[string(h)]
		if !ok {
			k = txKey{-1, -1, -1, -1} // a hash the harness never added: shows up as a state no action explains
		}
		r = append(r, k.m())
	}
	return r
}

// proj is the abstraction function: real cache -> the state variables of the specification.
func (s *sut) proj() M {
	if s.c == nil {
		return M{"ls": []interface{}{}, "bh": []interface{}{}, "cnt": 0, "nb": 0, "ns": 0, "swl": []interface{}{}}
	}
	ls := []interface{}{}
	for _, v := range s.c.VerifSenders() {
		an := -1
		if v.AccountNonceKnown {
			an = int(v.AccountNonce)
		}
		ls = append(ls, M{"s": senderOf(v.Sender), "txs": s.txsOf(v.TxHashes), "an": an, "fs": int(v.NumFailedSelections),
			"sw": v.Sweepable, "sc": int(v.Score)})
	}
	sort.Slice(ls, func(i, j int) bool { return ls[i].(M)["s"].(int) < ls[j].(M)["s"].(int) })
	bh := []interface{}{}
	for _, k := range s.known { // "found by hash": GetByTxHash of every transaction ever offered to the cache
		if w, ok := s.c.GetByTxHash(txHash(k)); ok && w != nil {
			bh = append(bh, k.m())
		}
	}
	swl := []interface{}{}
	for _, e := range s.c.VerifSweepList() {
		txs := []interface{}{}
		if !e.Live {
			txs = s.txsOf(e.TxHashes)
		}
		swl = append(swl, M{"s": senderOf(e.Sender), "live": e.Live, "txs": txs})
	}
	return M{"ls": ls, "bh": bh, "cnt": int(s.c.CountTx()), "nb": s.c.NumBytes(), "ns": int(s.c.CountSenders()), "swl": swl}
}

// apply executes one call on the real cache and returns its observable result.
func (s *sut) apply(a string, in M) M {
	switch a {
	case "AddTx":
		ok, added := s.c.AddTx(s.wrap(keyOf(in["tx"])))
		return M{"ok": ok, "added": added}
	case "RemoveTx":
		k := keyOf(in["tx"])
		s.wrap(k)
		return M{"ok": s.c.RemoveTxByHash(txHash(k))}
	case "Notify":
		s.c.NotifyAccountNonce(senderAddr(vtrace.Int(in["s"])), uint64(vtrace.Int(in["n"])))
		return M{"x": 0}
	case "Select":
		res := s.c.VerifSelect(vtrace.Int(in["n"]), vtrace.Int(in["b"]))
		hs := make([][]byte, 0, len(res))
		for _, w := range res {
			if w == nil {
				hs = append(hs, []byte("nil"))
				continue
			}
			hs = append(hs, w.TxHash)
		}
		return M{"txs": s.txsOf(hs)}
	case "Sweep":
		s.c.VerifSweep()
		return M{"x": 0}
	case "Clear":
		s.c.Clear()
		return M{"x": 0}
	}
	panic("unknown action " + a)
}

type step struct {
	A  string `json:"a"`
	In M      `json:"in"`
}

func forEachBehaviour(path string, f func(bi int, b []step)) error {
	fh, err := os.Open(path)
	if err != nil {
		return err
	}
	defer fh.Close()
	r := bufio.NewReaderSize(fh, 1<<20)
	for bi := 0; ; {
		line, err := r.ReadBytes('\n')
		if len(line) > 1 {
			var b []step
			if e := json.Unmarshal(line, &b); e != nil {
				return fmt.Errorf("behaviour line %d: %v", bi+1, e)
			}
			f(bi, b)
			bi++
		}
		if err == io.EOF {
			return nil
		}
		if err != nil {
			return err
		}
	}
}

func sweepPending(s *sut) bool { return len(s.c.VerifSweepList()) > 0 }

func replay(path, out, mode string) {
	w, err := vtrace.NewWriter(out)
	if err != nil {
		vtrace.Broken(err.Error())
		return
	}
	distinct := vtrace.NewDistinct()
	nb, steps, samples := 0, 0, 0
	err = forEachBehaviour(path, func(bi int, b []step) {
		nb++
		s, ok := newSut(b[0].In)
		w.NewTraceWith("New", b[0].In, M{"ok": ok}, s.proj())
		if !ok {
			return
		}
		key := fmt.Sprint(b[0].In)
		var sample []interface{}
		for si := 1; si < len(b); si++ {
			st := b[si]
			if st.A == "Sweep" && mode == "sync" && !sweepPending(s) {
				continue
			}
			got := s.apply(st.A, st.In)
			steps++
			obs := s.proj()
			w.Emit(st.A, st.In, got, obs)
			key += "|" + st.A + fmt.Sprint(st.In)
			if samples < 2 {
				sample = append(sample, M{"a": st.A, "in": st.In, "out": got})
			}
			if st.A == "Select" && mode == "sync" && sweepPending(s) {
				got = s.apply("Sweep", M{"x": 0})
				steps++
				w.Emit("Sweep", M{"x": 0}, got, s.proj())
			}
		}
		distinct.Add(key)
		if samples < 2 && len(b) >= 4 {
			samples++
			vtrace.Sample(os.Getenv("VERIF_PROP"), M{"config": b[0].In, "steps": sample})
		}
	})
	if err != nil {
		vtrace.Broken(err.Error())
	}
	if err := w.Close(); err != nil {
		vtrace.Broken(err.Error())
	}
	vtrace.Stat("behaviours", nb)
	vtrace.Stat("steps", steps)
	vtrace.Stat("events", w.N)
	vtrace.Stat("distinct", distinct.Len())
}

func record(seed int64, traces, n int, out, mode string) {
	w, err := vtrace.NewWriter(out)
	if err != nil {
		vtrace.Broken(err.Error())
		return
	}
	rng := rand.New(rand.NewSource(seed))
	distinct := vtrace.NewDistinct()
	sizes := []int{1, 2, 3, 5, 8, 40, 100}
	for t := 0; t < traces; t++ {
		nSenders := 1 + rng.Intn(4)
		maxNonce := 2 + rng.Intn(6)
		cfg := M{"ev": false, "nb": 0, "cnt": 0, "sb": 1 + rng.Intn(220), "sc": 1 + rng.Intn(6), "ne": 0}
		if rng.Intn(3) > 0 {
			cfg["ev"] = true
			cfg["nb"] = 4 + rng.Intn(400)
			cfg["cnt"] = 4 + rng.Intn(8)
			cfg["ne"] = 1 + rng.Intn(3)
		}
		if t%5 == 0 { // the shape of DESIGN.md section 5: byte limit 100 per sender, sizes 40/100
			cfg["sb"], cfg["sc"] = 100, 10
		}
		// op mix (percent): add, remove, notify, select; the rest: sweep (async only) / clear
		pAdd, pRemove, pNotify, pSelect := 50, 14, 11, 18
		trSizes := sizes
		switch t % 5 {
		case 1:
			// churn: few senders with one or two transactions each, eviction thresholds at the accepted minimum, mostly
			// add/remove of the same transactions: many evictions with senders emptied and re-added in between
			nSenders, maxNonce = 2+rng.Intn(2), 1
			cfg = M{"ev": true, "nb": 4 + rng.Intn(6), "cnt": 4, "sb": 100, "sc": 10, "ne": 1 + rng.Intn(2)}
			trSizes = []int{3, 5}
			pAdd, pRemove, pNotify, pSelect = 55, 38, 0, 5
		case 3:
			// rollback: account nonces are notified up and down (a reverted block), selections in between
			nSenders, maxNonce = 1+rng.Intn(2), 5
			cfg = M{"ev": false, "nb": 0, "cnt": 0, "sb": 1000, "sc": 20, "ne": 0}
			trSizes = []int{1, 2}
			pAdd, pRemove, pNotify, pSelect = 35, 5, 33, 25
		}
		s, ok := newSut(cfg)
		if !ok {
			vtrace.Broken(fmt.Sprintf("config rejected: %v", cfg))
			return
		}
		w.NewTraceWith("New", cfg, M{"ok": true}, s.proj())
		var sample []interface{}
		for i := 0; i < n; i++ {
			k := txKey{1 + rng.Intn(nSenders), rng.Intn(maxNonce + 1), 1 + rng.Intn(2), trSizes[rng.Intn(len(trSizes))]}
			if rng.Intn(4) == 0 { // low nonces (nonce 0 included) more often
				k.n = rng.Intn(2)
			}
			var a string
			var in M
			switch r := rng.Intn(100); {
			case r < pAdd:
				a, in = "AddTx", M{"tx": k.m()}
			case r < pAdd+pRemove:
				if len(s.known) > 0 && rng.Intn(5) > 0 {
					k = s.known[rng.Intn(len(s.known))]
				}
				a, in = "RemoveTx", M{"tx": k.m()}
			case r < pAdd+pRemove+pNotify:
				a, in = "Notify", M{"s": k.s, "n": rng.Intn(maxNonce + 1)}
			case r < pAdd+pRemove+pNotify+pSelect:
				a, in = "Select", M{"n": rng.Intn(10), "b": rng.Intn(4)}
			case r < 98:
				if mode != "async" {
					continue
				}
				a, in = "Sweep", M{"x": 0}
			default:
				if rng.Intn(3) > 0 {
					continue
				}
				a, in = "Clear", M{"x": 0}
			}
			got := s.apply(a, in)
			w.Emit(a, in, got, s.proj())
			distinct.Add(a + fmt.Sprint(in, cfg))
			if t < 2 && i < 12 {
				sample = append(sample, M{"a": a, "in": in, "out": got})
			}
			if a == "Select" && mode == "sync" && sweepPending(s) {
				got = s.apply("Sweep", M{"x": 0})
				w.Emit("Sweep", M{"x": 0}, got, s.proj())
			}
		}
		if t < 2 {
			vtrace.Sample(os.Getenv("VERIF_PROP"), M{"config": cfg, "steps": sample})
		}
	}
	if err := w.Close(); err != nil {
		vtrace.Broken(err.Error())
	}
	vtrace.Stat("events", w.N)
	vtrace.Stat("traces", traces)
	vtrace.Stat("distinct", distinct.Len())
}

func main() {
	vtrace.Quiet()
	if len(os.Args) < 5 {
		fmt.Fprintln(os.Stderr, "usage: vh-txcache replay <inputs> <trace-out> sync|async | record <seed> <traces> <len> <out> sync|async")
		os.Exit(2)
	}
	switch os.Args[1] {
	case "replay":
		replay(os.Args[2], os.Args[3], os.Args[4])
	case "record":
		seed, _ := strconv.ParseInt(os.Args[2], 10, 64)
		traces, _ := strconv.Atoi(os.Args[3])
		n, _ := strconv.Atoi(os.Args[4])
		record(seed, traces, n, os.Args[5], os.Args[6])
	default:
		os.Exit(2)
	}
}
