// vh-peereviction binds specs/PeerEviction to p2p/libp2p/networksharding.listsSharder.
//
//	vh-peereviction replay <behaviours.ndjson> <trace-out>   TLC-enumerated (configuration, peer list) pairs: the real
//	                                                         NewListsSharder / ComputeEvictionList are run with a stub
//	                                                         resolver, seeder list and preferred-peers holder built from the
//	                                                         peer profiles; the result is judged by the property, compared
//	                                                         with the per-category counts of the specification (drift only)
//	                                                         and logged for Trace_PeerEviction
//	vh-peereviction record <seed> <n> <trace-out>            random configurations and lists of up to 40 peers
package main

import (
	"crypto/sha256"
	"encoding/json"
	"fmt"
	"math/rand"
	"os"
	"strconv"

	"github.com/ElrondNetwork/elrond-go/config"
	"github.com/ElrondNetwork/elrond-go/core"
	"github.com/ElrondNetwork/elrond-go/p2p/libp2p/networksharding"
	"github.com/ElrondNetwork/elrond-go/p2p/mock"
	"github.com/ElrondNetwork/elrond-go/testscommon/p2pmocks"
	"github.com/libp2p/go-libp2p-core/peer"
	"verif/harness/internal/vtrace"
)

type M = vtrace.M

const prop = "C44"

type cfgT struct{ target, iv, cv, io, co, seed, fh int }

func cfgOf(m map[string]interface{}) cfgT {
	return cfgT{vtrace.Int(m["target"]), vtrace.Int(m["maxIV"]), vtrace.Int(m["maxCV"]), vtrace.Int(m["maxIO"]),
		vtrace.Int(m["maxCO"]), vtrace.Int(m["maxSeed"]), vtrace.Int(m["maxFH"])}
}

func (c cfgT) m() M {
	return M{"target": c.target, "maxIV": c.iv, "maxCV": c.cv, "maxIO": c.io, "maxCO": c.co, "maxSeed": c.seed, "maxFH": c.fh}
}

type profile struct {
	code                  int
	ty                    string
	cross, fh, seed, pref bool
}

func profileOf(code int) profile {
	return profile{code: code, ty: []string{"val", "obs", "unk"}[code/16], cross: (code/8)%2 == 1, fh: (code/4)%2 == 1,
		seed: (code/2)%2 == 1, pref: code%2 == 1}
}

func (p profile) m() M {
	return M{"code": p.code, "ty": p.ty, "cross": p.cross, "fh": p.fh, "seed": p.seed, "pref": p.pref}
}

func pid(salt, k int) peer.ID {
	h := sha256.Sum256([]byte(fmt.Sprintf("verif-peer-%d-%d", salt, k)))
	return peer.ID(h[:])
}

type world struct {
	ids      []peer.ID
	pos      map[peer.ID]int
	self     peer.ID
	resolver *mock.PeerShardResolverStub
	holder   *p2pmocks.PeersHolderStub
	seeders  []string
}

// build concretises a list of profiles: ids, resolver answers, seeder addresses, preferred set
func build(ps []profile, salt int) *world {
	w := &world{pos: map[peer.ID]int{}, self: pid(salt, 0)}
	shards := []uint32{0, 1, core.MetachainShardId}
	selfShard := shards[salt%3]
	otherShard := shards[(salt+1+salt/3%2)%3]
	info := map[core.PeerID]core.P2PPeerInfo{core.PeerID(w.self): {PeerType: core.ObserverPeer, ShardID: selfShard}}
	pref := map[core.PeerID]bool{}
	for k, p := range ps {
		id := pid(salt, k+1)
		w.ids = append(w.ids, id)
		w.pos[id] = k + 1
		pi := core.P2PPeerInfo{ShardID: selfShard}
		switch p.ty {
		case "val":
			pi.PeerType = core.ValidatorPeer
		case "obs":
			pi.PeerType = core.ObserverPeer
		default:
			pi.PeerType = core.UnknownPeer
		}
		if p.cross {
			pi.ShardID = otherShard
		}
		if p.fh {
			pi.PeerSubType = core.FullHistoryObserver
		}
		info[core.PeerID(id)] = pi
		if p.seed {
			w.seeders = append(w.seeders, fmt.Sprintf("/ip4/10.0.%d.%d/tcp/10000/p2p/%s", k/250, k%250, core.PeerID(id).Pretty()))
		}
		if p.pref {
			pref[core.PeerID(id)] = true
		}
	}
	w.resolver = &mock.PeerShardResolverStub{GetPeerInfoCalled: func(p core.PeerID) core.P2PPeerInfo {
		return info[p] // zero value = unknown peer
	}}
	w.holder = &p2pmocks.PeersHolderStub{ContainsCalled: func(p core.PeerID) bool { return pref[p] }}
	return w
}

func (w *world) args(c cfgT) networksharding.ArgListsSharder {
	return networksharding.ArgListsSharder{
		PeerResolver: w.resolver,
		SelfPeerId:   w.self,
		P2pConfig: config.P2PConfig{Sharding: config.ShardingConfig{
			TargetPeerCount: uint32(c.target), MaxIntraShardValidators: uint32(c.iv), MaxCrossShardValidators: uint32(c.cv),
			MaxIntraShardObservers: uint32(c.io), MaxCrossShardObservers: uint32(c.co), MaxSeeders: uint32(c.seed),
			MaxFullHistoryObservers: uint32(c.fh)}},
		PreferredPeersHolder: w.holder,
	}
}

// compute runs the real sharder; viaSwap: construct with a resolver that knows nobody, then SetPeerShardResolver
func (w *world) compute(c cfgT, viaSwap bool) (ok bool, evicted []int, note string) {
	a := w.args(c)
	if viaSwap {
		a.PeerResolver = &mock.PeerShardResolverStub{GetPeerInfoCalled: func(core.PeerID) core.P2PPeerInfo { return core.P2PPeerInfo{} }}
	}
	ls, err := networksharding.NewListsSharder(a)
	if err != nil {
		return false, nil, ""
	}
	if viaSwap {
		if e := ls.SetPeerShardResolver(nil); e == nil {
			note = "SetPeerShardResolver(nil) accepted"
		}
		if e := ls.SetPeerShardResolver(w.resolver); e != nil {
			note = "SetPeerShardResolver failed: " + e.Error()
		}
	}
	ls.SetSeeders(w.seeders)
	list := append([]peer.ID(nil), w.ids...)
	res := ls.ComputeEvictionList(list)
	evicted = make([]int, 0, len(res))
	for _, id := range res {
		evicted = append(evicted, w.pos[id]) // 0 = not a peer of the list
		if w.pos[id] > 0 != ls.Has(id, w.ids) {
			note = "Has() disagrees with list membership"
		}
	}
	return true, evicted, note
}

type runner struct {
	w        *vtrace.Writer
	dist     *vtrace.Distinct
	lists    int
	computes int
	viol     map[string]int
	drifts   int
	samples  int
	cntAsIs  int
	cntInt   int
	cntNone  int
}

func (r *runner) violation(sig, what string, detail M) {
	r.viol[sig]++
	if r.viol[sig] <= 2 {
		vtrace.Violation(prop, prop+"/"+sig, what, detail)
	}
}

// judge: the class-independent half of the property is evaluated here on every observation; the category limits
// are evaluated with the classes and effective limits computed by the specification (pred), when available.
func (r *runner) judge(c cfgT, ps []profile, ev []int, pred M, detail M) {
	seen := map[int]bool{}
	for _, k := range ev {
		if k == 0 {
			r.violation("evicted-not-in-list", fmt.Sprintf("config %+v: the eviction list holds an id that is not in the given list", c), detail)
			continue
		}
		if seen[k] {
			r.violation("evicted-twice", fmt.Sprintf("config %+v: peer %d is proposed twice", c, k), detail)
		}
		seen[k] = true
		if ps[k-1].pref {
			cls := "non-seeder"
			if ps[k-1].seed {
				cls = "seeder"
			}
			r.violation("preferred-evicted/"+cls, fmt.Sprintf("config %+v: peer %d (%+v) is in the preferred-peers holder and is proposed for eviction (evicted %v of %d peers)",
				c, k, ps[k-1], ev, len(ps)), detail)
		}
	}
	if pred == nil {
		return
	}
	class := vtrace.Strs(pred["class"])
	eff, _ := pred["eff"].(map[string]interface{})
	remain := map[string]int{}
	total := 0
	for k, p := range ps {
		if p.pref || seen[k+1] {
			continue
		}
		remain[class[k]]++
		total++
	}
	for cat, n := range remain {
		if lim, ok := eff[cat]; ok && n > vtrace.Int(lim) {
			r.violation("category-over-limit/"+cat, fmt.Sprintf("config %+v: %d non-preferred %q peers remain, effective limit %d (evicted %v of %d peers)",
				c, n, cat, vtrace.Int(lim), ev, len(ps)), detail)
		}
	}
	if total > c.target {
		r.violation("over-target", fmt.Sprintf("config %+v: %d non-preferred peers remain, target %d", c, total, c.target), detail)
	}
	// drift: number evicted per category list against the transcription (as the code is / intended)
	match := func(classKey, cntKey string) bool {
		cl := vtrace.Strs(pred[classKey])
		want, _ := pred[cntKey].(map[string]interface{})
		got := map[string]int{}
		for _, k := range ev {
			if k == 0 {
				return false
			}
			got[cl[k-1]]++
		}
		for cat, n := range want {
			if got[cat] != vtrace.Int(n) {
				return false
			}
			delete(got, cat)
		}
		return len(got) == 0
	}
	a, i := match("class", "evict"), match("classI", "evictI")
	switch {
	case a:
		r.cntAsIs++
		if i {
			r.cntInt++
		}
	case i:
		r.cntInt++
	default:
		r.cntNone++
		if r.drifts < 3 {
			r.drifts++
			vtrace.Drift(prop, fmt.Sprintf("config %+v, %d peers: evicted %v, per-category counts differ from the transcription %v", c, len(ps), ev, pred["evict"]), detail)
		}
	}
}

func peersM(ps []profile) []M {
	r := make([]M, len(ps))
	for i, p := range ps {
		r[i] = p.m()
	}
	return r
}

func (r *runner) one(c cfgT, wantOK *bool, ps []profile, pred M, salts []int) {
	first := true
	for _, salt := range salts {
		w := build(ps, salt)
		ok, ev, note := w.compute(c, salt%2 == 1)
		if first {
			r.w.NewTraceWith("New", M{"cfg": c.m()}, M{"ok": ok}, M{})
			if wantOK != nil && *wantOK != ok {
				vtrace.Drift(prop, fmt.Sprintf("NewListsSharder(%+v) accepted=%v, specification says %v", c, ok, *wantOK), nil)
			}
			first = false
		}
		if !ok {
			return
		}
		if ps == nil {
			return
		}
		if note != "" && r.drifts < 5 {
			r.drifts++
			vtrace.Drift(prop, note, nil)
		}
		r.computes++
		in := M{"cfg": c.m(), "peers": peersM(ps)}
		out := M{"evicted": ev}
		r.w.Emit("Compute", in, out, M{})
		r.judge(c, ps, ev, pred, M{"in": in, "observed": out, "predicted": pred, "id_salt": salt})
		if r.samples < 3 && len(ev) >= 2 && pred != nil && r.computes%211 == 0 {
			r.samples++
			vtrace.Sample(prop, M{"in": in, "observed": out, "predicted_counts": pred["evict"]})
		}
	}
	codes := make([]int, len(ps))
	for i, p := range ps {
		codes[i] = p.code
	}
	if len(ps) >= 2 {
		r.dist.Add(fmt.Sprint(c, codes))
	}
	r.lists++
}

func (r *runner) finish() {
	if err := r.w.Close(); err != nil {
		panic(err)
	}
	vtrace.Stat("lists", r.lists)
	vtrace.Stat("computes", r.computes)
	vtrace.Stat("events", r.w.N)
	vtrace.Stat("distinct", r.dist.Len())
	vtrace.Stat("counts_match_as_is", r.cntAsIs)
	vtrace.Stat("counts_match_intended", r.cntInt)
	vtrace.Stat("counts_match_neither", r.cntNone)
}

func newRunner(out string) *runner {
	w, err := vtrace.NewWriter(out)
	if err != nil {
		panic(err)
	}
	return &runner{w: w, dist: vtrace.NewDistinct(), viol: map[string]int{}}
}

func replay(path, out string, seed int) {
	lines, err := vtrace.ReadLines(path)
	if err != nil {
		vtrace.Broken(err.Error())
		os.Exit(1)
	}
	r := newRunner(out)
	for n, ln := range lines {
		var b []vtrace.Step
		if e := json.Unmarshal(ln, &b); e != nil || len(b) < 1 || b[0].A != "New" {
			vtrace.Broken(fmt.Sprintf("bad behaviour: %v %.80s", e, string(ln)))
			os.Exit(1)
		}
		c := cfgOf(b[0].In["cfg"].(map[string]interface{}))
		wantOK, _ := b[0].Out["ok"].(bool)
		if len(b) == 1 {
			r.one(c, &wantOK, nil, nil, []int{seed*1000 + n})
			continue
		}
		st := b[1]
		raw := st.In["peers"].([]interface{})
		ps := make([]profile, len(raw))
		for i := range raw {
			ps[i] = profileOf(vtrace.Int(raw[i].(map[string]interface{})["code"]))
		}
		// distances are random (ids are hashes); where the specification says a preferred peer MAY be among the
		// evicted seeders, more id assignments are tried
		salts := []int{seed*100000 + n}
		if may, _ := st.Out["mayEvictPreferred"].(bool); may {
			for j := 1; j < 4; j++ {
				salts = append(salts, seed*100000+n+j*7919)
			}
		}
		r.one(c, &wantOK, ps, st.Out, salts)
	}
	r.finish()
}

// record: random valid configurations and lists of up to 40 peers with any mix of profiles
func record(seed int64, n int, out string) {
	rnd := rand.New(rand.NewSource(seed))
	r := newRunner(out)
	for it := 0; it < n; it++ {
		c := cfgT{iv: 1 + rnd.Intn(6), cv: 1 + rnd.Intn(6), io: 1 + rnd.Intn(4), co: 1 + rnd.Intn(4), seed: rnd.Intn(4), fh: rnd.Intn(3)}
		c.target = c.iv + c.cv + c.io + c.co + c.seed + c.fh + 1 + rnd.Intn(4)
		if c.target < 5 {
			c.target = 5
		}
		np := rnd.Intn(41)
		ps := make([]profile, np)
		bias := rnd.Intn(4)
		for i := range ps {
			code := rnd.Intn(48)
			switch bias {
			case 0: // few seeders / preferred
				if rnd.Intn(3) > 0 {
					code &^= 3
				}
			case 1: // mostly validators
				if rnd.Intn(2) == 0 {
					code %= 16
				}
			}
			ps[i] = profileOf(code)
		}
		r.one(c, nil, ps, nil, []int{int(seed)*100000 + it})
	}
	r.finish()
}

func main() {
	vtrace.Quiet()
	if len(os.Args) < 2 {
		os.Exit(2)
	}
	seed, _ := strconv.Atoi(os.Getenv("VERIF_SEED"))
	switch os.Args[1] {
	case "replay":
		replay(os.Args[2], os.Args[3], seed)
	case "record":
		s, _ := strconv.ParseInt(os.Args[2], 10, 64)
		n, _ := strconv.Atoi(os.Args[3])
		record(s, n, os.Args[4])
	default:
		os.Exit(2)
	}
}
