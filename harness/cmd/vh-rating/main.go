// vh-rating binds specs/Rating to the real process/rating.BlockSigningRater (and RatingsData).
//
//	vh-rating replay <behaviours.ndjson> <mismatch-trace-out>
//	    every TLC-enumerated (configuration, current rating, call) is evaluated on a real BlockSigningRater built
//	    from exactly that configuration (mock.RatingsInfoMock + rating.NewRatingStepData) and compared with the
//	    result the specification computed. For configurations on which the rater differs from the specification
//	    a full sweep of observed calls is written to <mismatch-trace-out>; TLC decides which C37 clause (if any)
//	    is false on the observed results.
//	vh-rating record <seed> <configs> <out>
//	    seeded random RatingsConfig values are given to the real rating.NewRatingsData + NewBlockSigningRater;
//	    for each accepted one the derived steps are read back and a sweep of calls is logged for Trace_Rating.
package main

import (
	"fmt"
	"math"
	"math/rand"
	"os"
	"sort"
	"strconv"

	"github.com/ElrondNetwork/elrond-go/config"
	"github.com/ElrondNetwork/elrond-go/core"
	"github.com/ElrondNetwork/elrond-go/process"
	"github.com/ElrondNetwork/elrond-go/process/mock"
	"github.com/ElrondNetwork/elrond-go/process/rating"
	"verif/harness/internal/vtrace"
)

type M = vtrace.M

func asM(v interface{}) M {
	m, _ := v.(map[string]interface{})
	return m
}

// penalty of a model configuration: pn/pd (dyadic, exact in float32), pd = 0 stands for "some other float"
func penaltyOf(s M) float32 {
	pd := vtrace.Int(s["pd"])
	if pd == 0 {
		return 1.1
	}
	return float32(vtrace.Int(s["pn"])) / float32(pd)
}

func stepsOf(s M) process.RatingsStepHandler {
	return rating.NewRatingStepData(int32(vtrace.Int(s["incP"])), int32(vtrace.Int(s["decP"])),
		int32(vtrace.Int(s["incV"])), int32(vtrace.Int(s["decV"])), penaltyOf(s))
}

// buildFromModel builds the real rater from a configuration record of the specification
func buildFromModel(c M) (*rating.BlockSigningRater, error) {
	var chances []process.SelectionChance
	for _, b := range c["bands"].([]interface{}) {
		bm := asM(b)
		chances = append(chances, &rating.SelectionChance{MaxThreshold: uint32(vtrace.Int(bm["thr"])), ChancePercent: uint32(vtrace.Int(bm["ch"]))})
	}
	rd := &mock.RatingsInfoMock{
		StartRatingProperty:           uint32(vtrace.Int(c["start"])),
		MaxRatingProperty:             uint32(vtrace.Int(c["max"])),
		MinRatingProperty:             uint32(vtrace.Int(c["min"])),
		SignedBlocksThresholdProperty: 0.01,
		MetaRatingsStepDataProperty:   stepsOf(asM(c["meta"])),
		ShardRatingsStepDataProperty:  stepsOf(asM(c["shard"])),
		SelectionChancesProperty:      chances,
	}
	return rating.NewBlockSigningRater(rd)
}

func shardID(chain string, salt int) uint32 {
	if chain == "meta" {
		return core.MetachainShardId
	}
	return uint32(salt % 3)
}

// call evaluates one method of the real rater
func call(r *rating.BlockSigningRater, op string, in M) int {
	ch := vtrace.Str(in["ch"])
	cur := uint32(vtrace.Int(in["cur"]))
	sh := shardID(ch, int(cur))
	switch op {
	case "IncP":
		return int(r.ComputeIncreaseProposer(sh, cur))
	case "IncV":
		return int(r.ComputeIncreaseValidator(sh, cur))
	case "DecV":
		return int(r.ComputeDecreaseValidator(sh, cur))
	case "DecP":
		return int(r.ComputeDecreaseProposer(sh, cur, uint32(vtrace.Int(in["k"]))))
	case "Revert":
		return int(r.RevertIncreaseValidator(sh, cur, uint32(vtrace.Int(in["n"]))))
	case "Chance":
		return int(r.GetChance(cur))
	}
	panic("unknown op " + op)
}

// sweep logs a systematic series of observed calls for one configuration: for each chain and current rating
// every method, ComputeDecreaseProposer with increasing streaks (consecutive events, so that Trace_Rating
// compares each with the previous one)
func sweep(w *vtrace.Writer, r *rating.BlockSigningRater, cfg M, currents []int, streaks []int, reverts []int) {
	w.NewTraceWith("New", cfg, M{}, M{})
	for _, ch := range []string{"shard", "meta"} {
		for _, cur := range currents {
			base := M{"ch": ch, "cur": cur}
			for _, op := range []string{"IncP", "IncV", "DecV", "Chance"} {
				w.Emit(op, base, M{"r": call(r, op, base)}, M{})
			}
			for _, k := range streaks {
				in := M{"ch": ch, "cur": cur, "k": k}
				w.Emit("DecP", in, M{"r": call(r, "DecP", in)}, M{})
			}
			for _, n := range reverts {
				in := M{"ch": ch, "cur": cur, "n": n}
				w.Emit("Revert", in, M{"r": call(r, "Revert", in)}, M{})
			}
		}
	}
}

func replay(path, mismatchOut string) {
	bs, err := vtrace.ReadBehaviours(path)
	if err != nil {
		vtrace.Broken(err.Error())
		return
	}
	w, err := vtrace.NewWriter(mismatchOut)
	if err != nil {
		vtrace.Broken(err.Error())
		return
	}
	type entry struct {
		r   *rating.BlockSigningRater
		cfg M
		bad bool
	}
	raters := map[string]*entry{}
	distinct := vtrace.NewDistinct()
	steps, mismatches, dumped := 0, 0, 0
	for bi, b := range bs {
		if len(b) < 2 || b[0].A != "New" {
			continue
		}
		key := fmt.Sprint(b[0].In)
		e, ok := raters[key]
		if !ok {
			r, err := buildFromModel(b[0].In)
			if err != nil {
				vtrace.Broken(fmt.Sprintf("the real NewBlockSigningRater rejects a configuration the specification calls valid: %v: %v", b[0].In, err))
				return
			}
			e = &entry{r: r, cfg: b[0].In}
			raters[key] = e
		}
		for _, st := range b[1:] {
			got := call(e.r, st.A, st.In)
			steps++
			distinct.Add(key + st.A + fmt.Sprint(st.In))
			if got != vtrace.Int(st.Out["r"]) {
				mismatches++
				e.bad = true
				if mismatches <= 3 {
					vtrace.Drift("C37", fmt.Sprintf("%s%v on configuration %v: real result %d, specification %d", st.A, st.In, b[0].In, got, vtrace.Int(st.Out["r"])), nil)
				}
			}
		}
		if bi%(len(bs)/3+1) == 0 {
			vtrace.Sample("C37", b)
		}
	}
	keys := make([]string, 0, len(raters))
	for k, e := range raters {
		if e.bad {
			keys = append(keys, k)
		}
	}
	sort.Strings(keys)
	for _, k := range keys {
		if dumped >= 40 {
			break
		}
		dumped++
		e := raters[k]
		max := vtrace.Int(e.cfg["max"])
		var currents []int
		for c := 0; c <= max+1; c++ {
			currents = append(currents, c)
		}
		sweep(w, e.r, e.cfg, currents, []int{0, 1, 2, 3, 4, 5, 8}, []int{0, 1, 2, 3, 7})
	}
	if err := w.Close(); err != nil {
		vtrace.Broken(err.Error())
	}
	vtrace.Stat("behaviours", len(bs))
	vtrace.Stat("steps", steps)
	vtrace.Stat("distinct", distinct.Len())
	vtrace.Stat("configs", len(raters))
	vtrace.Stat("mismatches", mismatches)
	vtrace.Stat("mismatch_configs", len(keys))
	vtrace.Stat("mismatch_events", w.N)
}

// fraction writes a float32 penalty as pn/pd when it is a small dyadic fraction (pd in 1,2,4,8), else pd = 0
func fraction(p float32) (int, int) {
	for _, pd := range []int{1, 2, 4, 8} {
		v := float64(p) * float64(pd)
		if v == math.Trunc(v) && v >= 1 && v <= 4096 {
			return int(v), pd
		}
	}
	return 0, 0
}

func stepsM(s process.RatingsStepHandler) M {
	pn, pd := fraction(s.ConsecutiveMissedBlocksPenalty())
	return M{"incP": int(s.ProposerIncreaseRatingStep()), "decP": int(s.ProposerDecreaseRatingStep()),
		"incV": int(s.ValidatorIncreaseRatingStep()), "decV": int(s.ValidatorDecreaseRatingStep()), "pn": pn, "pd": pd}
}

func pickU32(rng *rand.Rand, vs ...uint32) uint32   { return vs[rng.Intn(len(vs))] }
func pickF32(rng *rand.Rand, vs ...float32) float32 { return vs[rng.Intn(len(vs))] }

func randomSteps(rng *rand.Rand) config.RatingSteps {
	return config.RatingSteps{
		HoursToMaxRatingFromStartRating: pickU32(rng, 1, 2, 10, 55, 72, 500, 1193, 1194, 5000),
		ProposerValidatorImportance:     pickF32(rng, 0.1, 1, 1, 2.5, 10),
		ProposerDecreaseFactor:          pickF32(rng, -1, -1.5, -4, -4, -100, -30000),
		ValidatorDecreaseFactor:         pickF32(rng, -1, -2.25, -4, -4, -1000),
		ConsecutiveMissedBlocksPenalty:  pickF32(rng, 1, 1.1, 1.5, 1.5, 2, 1.25, 3.7, 100),
	}
}

func record(seed int64, nconf int, out string) {
	w, err := vtrace.NewWriter(out)
	if err != nil {
		vtrace.Broken(err.Error())
		return
	}
	rng := rand.New(rand.NewSource(seed))
	accepted, rejected, tries := 0, 0, 0
	distinct := vtrace.NewDistinct()
	for accepted < nconf && tries < nconf*200 {
		tries++
		max := pickU32(rng, 20, 1000, 50000, 10000000, 10000000)
		min := pickU32(rng, 1, 1, 2, max/10+1)
		start := min + uint32(rng.Int63n(int64(max-min)+1))
		if rng.Intn(3) == 0 {
			start = max/2 + 1
		}
		// thresholds: 0 and max plus a few in between, in random order; now and then an invalid set
		nb := 1 + rng.Intn(5)
		ths := map[uint32]bool{0: true, max: true}
		for i := 0; i < nb; i++ {
			ths[uint32(rng.Int63n(int64(max)+1))] = true
		}
		if rng.Intn(25) == 0 {
			delete(ths, 0)
		}
		var chances []*config.SelectionChance
		for t := range ths {
			chances = append(chances, &config.SelectionChance{MaxThreshold: t, ChancePercent: uint32(rng.Intn(30))})
		}
		sort.Slice(chances, func(i, j int) bool { return chances[i].MaxThreshold < chances[j].MaxThreshold })
		rng.Shuffle(len(chances), func(i, j int) { chances[i], chances[j] = chances[j], chances[i] })
		rc := config.RatingsConfig{
			General:    config.General{StartRating: start, MaxRating: max, MinRating: min, SignedBlocksThreshold: 0.01, SelectionChances: chances},
			ShardChain: config.ShardChain{RatingSteps: randomSteps(rng)},
			MetaChain:  config.MetaChain{RatingSteps: randomSteps(rng)},
		}
		arg := rating.RatingsDataArg{
			Config:                   rc,
			ShardConsensusSize:       pickU32(rng, 1, 3, 63, 63, 400),
			MetaConsensusSize:        pickU32(rng, 1, 3, 400, 400),
			ShardMinNodes:            pickU32(rng, 1, 3, 63, 400, 400, 3200),
			MetaMinNodes:             pickU32(rng, 1, 3, 400, 400, 3200),
			RoundDurationMiliseconds: uint64(pickU32(rng, 1000, 4000, 6000, 6000)),
		}
		rd, err := rating.NewRatingsData(arg)
		if err != nil {
			rejected++
			continue
		}
		r, err := rating.NewBlockSigningRater(rd)
		if err != nil {
			rejected++
			continue
		}
		sh, me := stepsM(rd.ShardChainRatingsStepHandler()), stepsM(rd.MetaChainRatingsStepHandler())
		if sh["decP"].(int) < -(1<<30) || me["decP"].(int) < -(1<<30) || sh["decV"].(int) < -(1<<30) || me["decV"].(int) < -(1<<30) {
			// steps near math.MinInt32 cannot be negated in TLC's integers; such configurations are swept
			// with the same clauses by the next configuration that does not hit the limit
			rejected++
			continue
		}
		accepted++
		var bands []M
		for _, c := range chances {
			bands = append(bands, M{"thr": int(c.MaxThreshold), "ch": int(c.ChancePercent)})
		}
		cfg := M{"min": int(min), "max": int(max), "start": int(start), "shard": sh, "meta": me, "bands": bands}
		cur := map[int]bool{int(min): true, int(min) + 1: true, int(start): true, int(max) - 1: true, int(max): true,
			0: true, int(max) + 1: true, int(min + (max-min)/2): true}
		for i := 0; i < 4; i++ {
			cur[int(min)+int(rng.Int63n(int64(max-min)+1))] = true
		}
		// ratings right at band borders
		for _, c := range chances {
			cur[int(c.MaxThreshold)] = true
			cur[int(c.MaxThreshold)+1] = true
		}
		var currents []int
		for c := range cur {
			if c >= 0 && c <= int(max)+1 {
				currents = append(currents, c)
			}
		}
		sort.Ints(currents)
		streaks := []int{0, 1, 2, 3, 4, 5, 6, 8, 12, 20, 50, 1000}
		reverts := []int{0, 1, 2, 10, 1000000, math.MaxInt32}
		sweep(w, r, cfg, currents, streaks, reverts)
		distinct.Add(fmt.Sprint(sh, me, min, max, len(bands)))
		if accepted <= 2 {
			vtrace.Sample("C37", M{"ratingsConfig": fmt.Sprintf("%+v", arg), "derived": cfg})
		}
	}
	if err := w.Close(); err != nil {
		vtrace.Broken(err.Error())
	}
	vtrace.Stat("events", w.N)
	vtrace.Stat("configs_accepted", accepted)
	vtrace.Stat("configs_rejected", rejected)
	vtrace.Stat("distinct_configs", distinct.Len())
}

func main() {
	vtrace.Quiet()
	if len(os.Args) < 2 {
		fmt.Fprintln(os.Stderr, "usage: vh-rating replay <file> <mismatch-out> | record <seed> <configs> <out>")
		os.Exit(2)
	}
	switch os.Args[1] {
	case "replay":
		replay(os.Args[2], os.Args[3])
	case "record":
		seed, _ := strconv.ParseInt(os.Args[2], 10, 64)
		n, _ := strconv.Atoi(os.Args[3])
		record(seed, n, os.Args[4])
	default:
		os.Exit(2)
	}
}
