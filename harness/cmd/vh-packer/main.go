// vh-packer binds specs/Packer to core/partitioning (SizeDataPacker, SimpleDataPacker, DataSplit).
//
//	vh-packer replay <inputs.ndjson> <trace-out.ndjson>   every TLC-enumerated input (with the specification's expected
//	                                                      chunking) is packed by the real code with the real gogo-proto
//	                                                      marshalizer, unpacked again, and the observation is (a) checked
//	                                                      against the property itself, (b) compared with the predicted
//	                                                      chunking (drift only), (c) logged for Trace_Packer
//	vh-packer record <seed> <n> <trace-out.ndjson>        random inputs at realistic sizes (1- and 2-byte varints)
package main

import (
	"bytes"
	"encoding/json"
	"errors"
	"fmt"
	"math/rand"
	"os"
	"strconv"

	"github.com/ElrondNetwork/elrond-go/core"
	"github.com/ElrondNetwork/elrond-go/core/partitioning"
	"github.com/ElrondNetwork/elrond-go/data/batch"
	"github.com/ElrondNetwork/elrond-go/marshal"
	"verif/harness/internal/vtrace"
)

type M = vtrace.M

const prop = "C32"

var marsh = &marshal.GogoProtoMarshalizer{}

// element k (1-based) of length n: content identifies the position
func element(k, n int) []byte {
	b := make([]byte, n)
	for j := range b {
		b[j] = byte(k*37 + j*11 + 1)
	}
	if n > 0 {
		b[0] = byte(k)
	}
	return b
}

type observation struct {
	err    string
	chunks [][][]byte // unpacked chunks
	wire   []int      // marshalled length of every chunk (0 for the splitter)
	broken string     // a chunk could not be unmarshalled
}

func errName(err error) string {
	switch {
	case err == nil:
		return ""
	case errors.Is(err, core.ErrInvalidValue):
		return "invalid"
	case errors.Is(err, core.ErrNilInputData):
		return "nil"
	}
	return "other:" + err.Error()
}

// run calls the real code and unpacks what it returns
func run(algo string, data [][]byte, limit int) observation {
	var o observation
	switch algo {
	case "split":
		ds := &partitioning.DataSplit{}
		res, err := ds.SplitDataInChunks(data, limit)
		o.err = errName(err)
		for _, c := range res {
			o.chunks = append(o.chunks, c)
			o.wire = append(o.wire, 0)
		}
		return o
	case "size", "simple":
		var packed [][]byte
		var err error
		if algo == "size" {
			p, e := partitioning.NewSizeDataPacker(marsh)
			if e != nil {
				panic(e)
			}
			packed, err = p.PackDataInChunks(data, limit)
		} else {
			p, e := partitioning.NewSimpleDataPacker(marsh)
			if e != nil {
				panic(e)
			}
			packed, err = p.PackDataInChunks(data, limit)
		}
		o.err = errName(err)
		for _, buff := range packed {
			b := &batch.Batch{}
			if e := marsh.Unmarshal(b, buff); e != nil {
				o.broken = e.Error()
				return o
			}
			o.chunks = append(o.chunks, b.Data)
			o.wire = append(o.wire, len(buff))
		}
		return o
	}
	panic("unknown algo " + algo)
}

// positions maps the unpacked elements back to input positions (0 = not an element of the input).
// Elements are matched in order first, so equal contents (length 0) are attributed left to right.
func positions(data [][]byte, chunks [][][]byte) [][]int {
	next := 0
	res := make([][]int, len(chunks))
	for ci, c := range chunks {
		res[ci] = make([]int, 0, len(c))
		for _, e := range c {
			idx := 0
			for j := next; j < len(data); j++ {
				if bytes.Equal(data[j], e) {
					idx = j + 1
					next = j + 1
					break
				}
			}
			if idx == 0 {
				for j := 0; j < len(data); j++ {
					if bytes.Equal(data[j], e) {
						idx = j + 1
						break
					}
				}
			}
			res[ci] = append(res[ci], idx)
		}
	}
	return res
}

type verdict struct {
	sig  string
	what string
}

// judge evaluates the property itself on the observation (bytes, not positions)
func judge(algo string, data [][]byte, limit int, o observation) []verdict {
	var vs []verdict
	if o.broken != "" {
		return []verdict{{"chunk-not-unmarshallable", "a packed chunk is not a marshalled batch.Batch: " + o.broken}}
	}
	if o.err != "" {
		if len(o.chunks) != 0 {
			vs = append(vs, verdict{"chunks-returned-with-error", "chunks returned together with an error"})
		}
		return vs
	}
	var flat [][]byte
	for _, c := range o.chunks {
		flat = append(flat, c...)
	}
	same := len(flat) == len(data)
	if same {
		for i := range flat {
			if !bytes.Equal(flat[i], data[i]) {
				same = false
				break
			}
		}
	}
	if !same {
		cls := "reordered-or-altered"
		if len(flat) < len(data) {
			cls = "elements-lost"
		} else if len(flat) > len(data) {
			cls = "elements-added"
		}
		vs = append(vs, verdict{cls, fmt.Sprintf("unpacking the %d chunks gives %d elements, the input has %d",
			len(o.chunks), len(flat), len(data))})
	}
	for ci, c := range o.chunks {
		ok := true
		switch algo {
		case "size":
			ok = len(c) == 1 || o.wire[ci] < limit
		case "simple":
			pl := 0
			for _, e := range c {
				pl += len(e)
			}
			ok = len(c) == 1 || pl < limit
		case "split":
			ok = len(c) <= limit
		}
		if !ok {
			vs = append(vs, verdict{"chunk-over-limit", fmt.Sprintf("chunk %d holds %d elements, %d marshalled bytes, limit %d",
				ci+1, len(c), o.wire[ci], limit)})
			break
		}
	}
	return vs
}

func nn(a [][]int) [][]int {
	if a == nil {
		return [][]int{}
	}
	return a
}

func ni(a []int) []int {
	if a == nil {
		return []int{}
	}
	return a
}

// sameContent: the observed chunks carry exactly the elements at the predicted positions (compared by content, so
// that equal elements -- e.g. several of length 0 -- cannot cause a spurious difference)
func sameContent(data [][]byte, got [][][]byte, want [][]int) bool {
	if len(got) != len(want) {
		return false
	}
	for i := range got {
		if len(got[i]) != len(want[i]) {
			return false
		}
		for j := range got[i] {
			k := want[i][j]
			if k < 1 || k > len(data) || !bytes.Equal(got[i][j], data[k-1]) {
				return false
			}
		}
	}
	return true
}

func toChunks(v interface{}) [][]int {
	if v == nil {
		return nil
	}
	a := v.([]interface{})
	r := make([][]int, len(a))
	for i := range a {
		r[i] = vtrace.Ints(a[i])
		if r[i] == nil {
			r[i] = []int{}
		}
	}
	return r
}

type runner struct {
	w         *vtrace.Writer
	dist      *vtrace.Distinct
	inputs    int
	asIs      int
	fixed     int
	neither   int
	violated  map[string]int
	drifts    int
	samples   int
}

func (r *runner) one(algo string, sizes []int, limit int, isNil bool, pred M) {
	var data [][]byte
	if !isNil {
		data = make([][]byte, len(sizes))
		for i, n := range sizes {
			data[i] = element(i+1, n)
		}
	}
	o := run(algo, data, limit)
	pos := positions(data, o.chunks)
	r.inputs++
	in := M{"algo": algo, "sizes": ni(sizes), "limit": limit, "nil": isNil}
	out := M{"err": o.err, "chunks": nn(pos), "wire": ni(o.wire)}
	if o.broken != "" {
		out["err"] = "broken"
	}
	r.w.Emit("Pack", in, out, M{})
	if len(sizes) >= 2 && o.err == "" {
		r.dist.Add(fmt.Sprint(algo, sizes, limit))
	}
	for _, v := range judge(algo, data, limit, o) {
		sig := prop + "/" + algo + "/" + v.sig
		r.violated[sig]++
		if r.violated[sig] <= 2 {
			vtrace.Violation(prop, sig, fmt.Sprintf("%s packer, element lengths %v, limit %d: %s (chunks as input positions: %v, marshalled lengths %v)",
				algo, sizes, limit, v.what, pos, o.wire), M{"in": in, "observed": out, "predicted": pred})
		}
	}
	if pred != nil {
		// drift: the functional transcription predicts the exact chunking
		po := pred
		switch {
		case vtrace.Str(po["err"]) != o.err:
			r.neither++
			if r.drifts < 3 {
				r.drifts++
				vtrace.Drift(prop, fmt.Sprintf("%s sizes %v limit %d: error class %q, specification %q", algo, sizes, limit, o.err, vtrace.Str(po["err"])), nil)
			}
		case sameContent(data, o.chunks, toChunks(po["chunks"])):
			r.asIs++
			if sameContent(data, o.chunks, toChunks(po["fixed"])) {
				r.fixed++
			}
		case sameContent(data, o.chunks, toChunks(po["fixed"])):
			r.fixed++
		default:
			r.neither++
			if r.drifts < 3 {
				r.drifts++
				vtrace.Drift(prop, fmt.Sprintf("%s sizes %v limit %d: chunking %v differs from the transcription (%v / intended %v)",
					algo, sizes, limit, pos, po["chunks"], po["fixed"]), nil)
			}
		}
		if r.samples < 3 && len(sizes) >= 3 && len(pos) >= 2 && r.inputs%97 == 0 {
			r.samples++
			vtrace.Sample(prop, M{"in": in, "observed": out, "predicted_chunks": po["chunks"]})
		}
	}
}

func (r *runner) finish() {
	if err := r.w.Close(); err != nil {
		panic(err)
	}
	vtrace.Stat("inputs", r.inputs)
	vtrace.Stat("events", r.w.N)
	vtrace.Stat("distinct", r.dist.Len())
	vtrace.Stat("match_as_is", r.asIs)
	vtrace.Stat("match_intended", r.fixed)
	vtrace.Stat("match_neither", r.neither)
	n := 0
	for _, c := range r.violated {
		n += c
	}
	vtrace.Stat("property_failures", n)
}

func newRunner(out string) *runner {
	w, err := vtrace.NewWriter(out)
	if err != nil {
		panic(err)
	}
	return &runner{w: w, dist: vtrace.NewDistinct(), violated: map[string]int{}}
}

func replay(path, out string) {
	lines, err := vtrace.ReadLines(path)
	if err != nil {
		vtrace.Broken(err.Error())
		os.Exit(1)
	}
	r := newRunner(out)
	for _, ln := range lines {
		var b []vtrace.Step
		if e := json.Unmarshal(ln, &b); e != nil || len(b) != 1 {
			vtrace.Broken(fmt.Sprintf("bad input record: %v %s", e, string(ln)[:80]))
			os.Exit(1)
		}
		s := b[0]
		isNil, _ := s.In["nil"].(bool)
		r.one(vtrace.Str(s.In["algo"]), vtrace.Ints(s.In["sizes"]), vtrace.Int(s.In["limit"]), isNil, s.Out)
	}
	r.finish()
}

// record: random inputs with element lengths on both sides of the 1-/2-byte varint border and limits around
// multiples of the element costs
func record(seed int64, n int, out string) {
	rnd := rand.New(rand.NewSource(seed))
	r := newRunner(out)
	algos := []string{"size", "simple", "split"}
	for it := 0; it < n; it++ {
		algo := algos[rnd.Intn(3)]
		ln := rnd.Intn(24)
		var base int
		switch rnd.Intn(4) {
		case 0:
			base = 1 + rnd.Intn(8)
		case 1:
			base = 120 + rnd.Intn(16) // around the varint border
		case 2:
			base = 1 + rnd.Intn(300)
		default:
			base = 1 + rnd.Intn(40)
		}
		sizes := make([]int, ln)
		for i := range sizes {
			switch rnd.Intn(5) {
			case 0:
				sizes[i] = base
			case 1:
				sizes[i] = rnd.Intn(3)
			default:
				sizes[i] = base/2 + rnd.Intn(base+1)
			}
		}
		var limit int
		if algo == "split" {
			limit = rnd.Intn(8)
		} else {
			limit = rnd.Intn(4*(base+3)) + rnd.Intn(2)*base*3
		}
		if rnd.Intn(40) == 0 {
			limit = -rnd.Intn(3)
		}
		isNil := ln == 0 && rnd.Intn(2) == 0
		r.one(algo, sizes, limit, isNil, nil)
	}
	r.finish()
}

func main() {
	vtrace.Quiet()
	if len(os.Args) < 2 {
		fmt.Println("usage: vh-packer replay|record ...")
		os.Exit(2)
	}
	switch os.Args[1] {
	case "replay":
		replay(os.Args[2], os.Args[3])
	case "record":
		seed, _ := strconv.ParseInt(os.Args[2], 10, 64)
		n, _ := strconv.Atoi(os.Args[3])
		record(seed, n, os.Args[4])
	default:
		os.Exit(2)
	}
}
