// vh-throttler binds specs/Throttler to core/throttler.NumGoRoutinesThrottler as it is used by its real callers:
// process/interceptors.SingleDataInterceptor / MultiDataInterceptor (baseDataInterceptor.preProcessMesage) and
// dataRetriever/resolvers.TxResolver (messageProcessor.canProcessMessage).
//
//	vh-throttler replay <behaviours.ndjson> <trace-all> <trace-norace> [every]
//
// Every TLC behaviour is a schedule: New(max, path, kinds of the threads) followed by steps (thread, Check|Start|End|Skip).
// Each thread is one real ProcessReceivedMessage call on its own interceptor/resolver instance; all instances share ONE
// real NumGoRoutinesThrottler, each through a gating decorator that blocks every CanProcess/StartProcessing/
// EndProcessing call until the scheduler grants it (blocking channels, no timing). The scheduler grants the calls in the
// order of the TLC behaviour, compares each result with the prediction, counts the admitted tasks between Start and End
// and finally drains the threads (running tasks first, so that draining never creates an overlap of its own) and measures
// how many tasks the throttler admits at rest. The observed event sequence is logged for Trace_Throttler.
package main

import (
	"encoding/json"
	"errors"
	"fmt"
	"os"
	"runtime"
	"strings"
	"time"

	"github.com/ElrondNetwork/elrond-go/core"
	"github.com/ElrondNetwork/elrond-go/core/partitioning"
	"github.com/ElrondNetwork/elrond-go/core/throttler"
	"github.com/ElrondNetwork/elrond-go/data/batch"
	"github.com/ElrondNetwork/elrond-go/data/transaction"
	"github.com/ElrondNetwork/elrond-go/dataRetriever"
	drmock "github.com/ElrondNetwork/elrond-go/dataRetriever/mock"
	"github.com/ElrondNetwork/elrond-go/dataRetriever/resolvers"
	"github.com/ElrondNetwork/elrond-go/marshal"
	"github.com/ElrondNetwork/elrond-go/p2p"
	"github.com/ElrondNetwork/elrond-go/process"
	"github.com/ElrondNetwork/elrond-go/process/interceptors"
	"github.com/ElrondNetwork/elrond-go/process/mock"
	"github.com/ElrondNetwork/elrond-go/testscommon"
	"github.com/ElrondNetwork/elrond-go/testscommon/p2pmocks"
	"verif/harness/internal/vtrace"
)

type M = vtrace.M

const prop = "C43"

var marsh = &marshal.GogoProtoMarshalizer{}
var errStub = errors.New("verif: stub error")

const selfID = core.PeerID("self-peer-id")

// waitOp is the watchdog for a call that never comes (only reached when the real code leaves the protocol); after a few
// such cases the remaining ones are decided faster
var waitOp = 20 * time.Second
var missing int

// ---------------------------------------------------------------------------------------------- gate
type gate struct {
	real  *throttler.NumGoRoutinesThrottler
	ann   chan string
	grant chan struct{}
	done  chan bool
}

func newGate(real *throttler.NumGoRoutinesThrottler) *gate {
	return &gate{real: real, ann: make(chan string), grant: make(chan struct{}), done: make(chan bool)}
}

func (g *gate) CanProcess() bool {
	g.ann <- "Check"
	<-g.grant
	r := g.real.CanProcess()
	g.done <- r
	return r
}

func (g *gate) StartProcessing() {
	g.ann <- "Start"
	<-g.grant
	g.real.StartProcessing()
	g.done <- true
}

func (g *gate) EndProcessing() {
	g.ann <- "End"
	<-g.grant
	g.real.EndProcessing()
	g.done <- true
}

// work is called by the stub that stands for the task's work (processor.Validate / the resolver's lookup): the work item
// is in flight between the two grants
func (g *gate) work() {
	g.ann <- "WorkBegin"
	<-g.grant
	g.done <- true
	g.ann <- "WorkEnd"
	<-g.grant
	g.done <- true
}

func (g *gate) IsInterfaceNil() bool { return g == nil }

// ---------------------------------------------------------------------------------------------- threads
type thread struct {
	id        int
	kind, sub string
	g         *gate
	ret       chan error
	launched  bool
	returned  bool
	retErr    error
	run       int    // StartProcessing minus EndProcessing calls observed
	wleft     int    // work items the specification still expects for this message
	work      int    // work items in flight
	starts    int    // StartProcessing calls that went through this thread's decorator
	ends      int    // EndProcessing calls that went through this thread's decorator
	pending   string // an announced call that has not been granted yet
	leaked    bool
	handler   func() error
}

func (th *thread) launch() {
	if th.launched {
		return
	}
	th.launched = true
	go func() { th.ret <- th.handler() }()
}

// next waits for the thread's next throttler call. got=false: the thread has finished (returned, no task open) or
// nothing came within the timeout.
func (th *thread) next(timeout time.Duration) (op string, got bool) {
	if th.pending != "" {
		op, th.pending = th.pending, ""
		return op, true
	}
	th.launch()
	for {
		if th.returned {
			if th.run <= 0 && th.wleft <= 0 {
				// synchronous part is over and no task is open: only a stray asynchronous call could still come
				select {
				case op = <-th.g.ann:
					return op, true
				default:
					return "", false
				}
			}
			select {
			case op = <-th.g.ann:
				return op, true
			case <-time.After(timeout):
				return "", false
			}
		}
		select {
		case op = <-th.g.ann:
			return op, true
		case err := <-th.ret:
			th.returned = true
			th.retErr = err
		case <-time.After(timeout):
			return "", false
		}
	}
}

func (th *thread) perform() bool {
	th.g.grant <- struct{}{}
	return <-th.g.done
}

// ---------------------------------------------------------------------------------------------- message / stubs
func message(data []byte, from core.PeerID) *mock.P2PMessageMock {
	return &mock.P2PMessageMock{DataField: data, FromField: []byte("originator"), PeerField: from, SeqNoField: []byte{1},
		SignatureField: []byte("sig"), TopicField: "verif"}
}

func antiflood(sub string) *mock.P2PAntifloodHandlerStub {
	topicCalls := 0
	pref := strings.HasPrefix(sub, "pref") || sub == "selfok"
	return &mock.P2PAntifloodHandlerStub{
		CanProcessMessageCalled: func(p2p.MessageP2P, core.PeerID) error {
			if sub == "flood" || pref { // preferred / self messages must not even get here
				return errStub
			}
			return nil
		},
		CanProcessMessagesOnTopicCalled: func(core.PeerID, string, uint32, uint64, []byte) error {
			topicCalls++
			if sub == "topicflood" || (sub == "topicflood2" && topicCalls == 2) {
				return errStub
			}
			return nil
		},
		IsOriginatorEligibleForTopicCalled: func(core.PeerID, string) error {
			if sub == "noteligible" || sub == "whitelisted" || sub == "noteligiblelast" {
				return errStub
			}
			return nil
		},
		BlacklistPeerCalled: func(core.PeerID, string, time.Duration) {},
	}
}

// interceptedData builds the stub for one element: `elem` decides what the element itself does (validity, shard),
// `sub` is the class of the whole message
func interceptedData(elem, sub string) *testscommon.InterceptedDataStub {
	return &testscommon.InterceptedDataStub{
		CheckValidityCalled: func() error {
			switch elem {
			case "invalid", "prefinvalid":
				return errStub
			case "wrongversion", "prefwrongversion":
				return process.ErrInvalidTransactionVersion
			case "wrongchain":
				return process.ErrInvalidChainID
			}
			return nil
		},
		IsForCurrentShardCalled: func() bool { return elem != "othershard" && sub != "whitelisted" },
		HashCalled:              func() []byte { return []byte(elem) },
		TypeCalled:              func() string { return "verif" },
		IdentifiersCalled:       func() [][]byte { return [][]byte{[]byte("id")} },
		StringCalled:            func() string { return "verif" },
	}
}

// factory: the element's bytes name the element class (single interceptor: the message class itself)
func factory(sub string) *mock.InterceptedDataFactoryStub {
	return &mock.InterceptedDataFactoryStub{CreateCalled: func(buff []byte) (process.InterceptedData, error) {
		elem := string(buff)
		if elem == "badcreate" {
			return nil, errStub
		}
		return interceptedData(elem, sub), nil
	}}
}

// elements of a batch for a message class of the multi data interceptor
func elements(sub string) []string {
	switch sub {
	case "ok2":
		return []string{"ok", "ok"}
	case "wvfirst":
		return []string{"wrongversion", "ok"}
	case "wvlast":
		return []string{"ok", "wrongversion"}
	case "wclast":
		return []string{"ok", "wrongchain"}
	case "invalidlast":
		return []string{"ok", "invalid"}
	case "badcreatelast":
		return []string{"ok", "badcreate"}
	case "othershardlast":
		return []string{"ok", "othershard"}
	case "noteligiblelast":
		return []string{"wl", "ok"} // originator not eligible: the first element is white listed, the second is not
	}
	return []string{sub}
}

func processor(sub string, g *gate) *mock.InterceptorProcessorStub {
	return &mock.InterceptorProcessorStub{
		ValidateCalled: func(process.InterceptedData) error {
			g.work() // the processing of one element
			if sub == "validatefail" {
				return errStub
			}
			return nil
		},
		SaveCalled: func(process.InterceptedData) error {
			if sub == "savefail" {
				return errStub
			}
			return nil
		},
	}
}

func whitelist(sub string) *testscommon.WhiteListHandlerStub {
	return &testscommon.WhiteListHandlerStub{IsWhiteListedCalled: func(d process.InterceptedData) bool {
		return sub == "whitelisted" || string(d.Hash()) == "wl"
	}}
}

func holder(sub string) *p2pmocks.PeersHolderStub {
	return &p2pmocks.PeersHolderStub{ContainsCalled: func(core.PeerID) bool { return strings.HasPrefix(sub, "pref") }}
}

// sender returns the connected peer and the message for a sub-kind
func interceptorInput(sub string, data []byte) (p2p.MessageP2P, core.PeerID) {
	from := core.PeerID("connected-peer")
	switch sub {
	case "nilmsg":
		return nil, from
	case "nildata":
		return message(nil, from), from
	case "selfok":
		m := message(data, selfID)
		m.FromField = selfID.Bytes()
		m.SignatureField = selfID.Bytes()
		return m, selfID
	}
	return message(data, from), from
}

func buildSingle(th *thread) {
	arg := interceptors.ArgSingleDataInterceptor{Topic: "verif", DataFactory: factory(th.sub), Processor: processor(th.sub, th.g),
		Throttler: th.g, AntifloodHandler: antiflood(th.sub), WhiteListRequest: whitelist(th.sub),
		PreferredPeersHolder: holder(th.sub), CurrentPeerId: selfID}
	sdi, err := interceptors.NewSingleDataInterceptor(arg)
	if err != nil {
		panic(err)
	}
	msg, from := interceptorInput(th.sub, []byte(th.sub))
	th.handler = func() error { return sdi.ProcessReceivedMessage(msg, from) }
}

func buildMulti(th *thread) {
	arg := interceptors.ArgMultiDataInterceptor{Topic: "verif", Marshalizer: marsh, DataFactory: factory(th.sub),
		Processor: processor(th.sub, th.g), Throttler: th.g, AntifloodHandler: antiflood(th.sub), WhiteListRequest: whitelist(th.sub),
		PreferredPeersHolder: holder(th.sub), CurrentPeerId: selfID}
	mdi, err := interceptors.NewMultiDataInterceptor(arg)
	if err != nil {
		panic(err)
	}
	if th.sub == "chunkerr" || th.sub == "chunkpart" || th.sub == "chunkcomplete" {
		sub := th.sub
		_ = mdi.SetChunkProcessor(&mock.ChunkProcessorStub{CheckBatchCalled: func(*batch.Batch, process.WhiteListHandler) (process.CheckedChunkResult, error) {
			switch sub {
			case "chunkerr":
				return process.CheckedChunkResult{}, errStub
			case "chunkcomplete":
				return process.CheckedChunkResult{IsChunk: true, HaveAllChunks: true, CompleteBuffer: []byte("ok")}, nil
			}
			return process.CheckedChunkResult{IsChunk: true, HaveAllChunks: false}, nil
		}})
	}
	var data []byte
	switch th.sub {
	case "unmarshal":
		data = []byte{0xff, 0xff, 0xff}
	case "empty":
		data = []byte{}
	default:
		var els [][]byte
		for _, e := range elements(th.sub) {
			els = append(els, []byte(e))
		}
		data, _ = marsh.Marshal(&batch.Batch{Data: els})
	}
	msg, from := interceptorInput(th.sub, data)
	th.handler = func() error { return mdi.ProcessReceivedMessage(msg, from) }
}

func buildResolver(th *thread) {
	sub := th.sub
	packer, _ := partitioning.NewSimpleDataPacker(marsh)
	pool := testscommon.NewShardedDataStub()
	g := th.g
	pool.SearchFirstDataCalled = func([]byte) (interface{}, bool) {
		g.work() // resolving one hash
		if sub == "notfound" {
			return nil, false
		}
		return &transaction.Transaction{Nonce: 7}, true
	}
	arg := resolvers.ArgTxResolver{
		SenderResolver: &drmock.TopicResolverSenderStub{SendCalled: func([]byte, core.PeerID) error {
			if sub == "senderr" {
				return errStub
			}
			return nil
		}},
		TxPool: pool,
		TxStorage: &testscommon.StorerStub{
			SearchFirstCalled:  func([]byte) ([]byte, error) { return nil, errStub },
			GetFromEpochCalled: func([]byte, uint32) ([]byte, error) { return nil, errStub },
			GetCalled:          func([]byte) ([]byte, error) { return nil, errStub },
		},
		Marshalizer: marsh,
		DataPacker:  packer,
		AntifloodHandler: &drmock.P2PAntifloodHandlerStub{
			CanProcessMessageCalled: func(p2p.MessageP2P, core.PeerID) error {
				if sub == "flood" {
					return errStub
				}
				return nil
			},
			CanProcessMessagesOnTopicCalled: func(core.PeerID, string, uint32, uint64, []byte) error {
				if sub == "topicflood" {
					return errStub
				}
				return nil
			},
			BlacklistPeerCalled: func(core.PeerID, string, time.Duration) {},
		},
		Throttler: th.g,
	}
	res, err := resolvers.NewTxResolver(arg)
	if err != nil {
		panic(err)
	}
	var data []byte
	switch sub {
	case "badrequest":
		data = []byte{0xff, 0xff, 0xff}
	case "nilvalue":
		data, _ = marsh.Marshal(&dataRetriever.RequestData{Type: dataRetriever.HashType})
	case "badtype":
		data, _ = marsh.Marshal(&dataRetriever.RequestData{Type: dataRetriever.RequestDataType(77), Value: []byte("h")})
	case "okarray":
		hashes, _ := marsh.Marshal(&batch.Batch{Data: [][]byte{[]byte("h1"), []byte("h2")}})
		data, _ = marsh.Marshal(&dataRetriever.RequestData{Type: dataRetriever.HashArrayType, Value: hashes})
	default:
		data, _ = marsh.Marshal(&dataRetriever.RequestData{Type: dataRetriever.HashType, Value: []byte("h")})
	}
	from := core.PeerID("connected-peer")
	var msg p2p.MessageP2P = message(data, from)
	if sub == "nilmsg" {
		msg = nil
	}
	th.handler = func() error { return res.ProcessReceivedMessage(msg, from) }
}

// ---------------------------------------------------------------------------------------------- scenario
type scenario struct {
	r        *runner
	max      int
	path     string
	real     *throttler.NumGoRoutinesThrottler
	ths      []*thread
	running  int // admitted (kind "checked") tasks between Start and End
	inflight int // work items of admitted tasks in flight
	events   []event
	diverged string
	overMax  bool // running > max was observed
	raced    bool // TLC labelled a state of this behaviour as raced
	odd      bool // counter not restored
}

type event struct {
	a       string
	in, out M
}

func (sc *scenario) log(a string, t int, out M) {
	sc.events = append(sc.events, event{a, M{"t": t}, out})
}

func (sc *scenario) diverge(what string) {
	if sc.diverged == "" {
		sc.diverged = what
	}
}

// account registers a granted call and evaluates the bound after a Start
func (sc *scenario) account(th *thread, op string, res bool, racedLabel bool, scheduled bool) {
	switch op {
	case "Check":
		if !res {
			th.wleft = 0 // refused: no work will be done for this message
		}
		sc.log("Check", th.id, M{"ok": res})
	case "Start":
		th.run++
		th.starts++
		if th.starts > 1 {
			sc.unbalanced(th, "a second StartProcessing for one message")
		}
		if th.kind == "checked" {
			sc.running++
		}
		sc.log("Start", th.id, M{"x": 0})
		if sc.running > sc.max {
			sc.overMax = true
			cls := "overshoot-without-race"
			if scheduled && racedLabel {
				cls = "check-then-start-race"
			}
			sc.r.violation(cls+"/"+sc.path, fmt.Sprintf("%s path, max %d: %d admitted tasks are running after StartProcessing of thread %d (%s); schedule so far: %s",
				sc.path, sc.max, sc.running, th.id, th.sub, sc.summary()), sc.detail())
		}
	case "WorkBegin":
		th.work++
		if th.kind == "checked" {
			sc.inflight++
		}
		sc.log("WorkBegin", th.id, M{"x": 0})
		if th.run <= 0 {
			sc.odd = true
			sc.r.violation("work-outside-start-end/"+sc.path+"/"+th.sub, fmt.Sprintf("%s path, message class %s: the message is being processed while its task is not "+
				"registered at the throttler (%d StartProcessing, %d EndProcessing calls so far): the throttler does not bound this work; events: %s",
				sc.path, th.sub, th.starts, th.ends, sc.summary()), sc.detail())
		}
		// more running tasks than max is judged (race or not) where the task starts; here: more work than tasks allow
		if sc.inflight > sc.max && sc.running <= sc.max {
			sc.odd = true
			sc.r.violation("work-in-flight-above-max/"+sc.path, fmt.Sprintf("%s path, max %d: %d admitted messages are being processed at the same time while only %d "+
				"tasks are registered at the throttler; events: %s", sc.path, sc.max, sc.inflight, sc.running, sc.summary()), sc.detail())
		}
	case "WorkEnd":
		th.work--
		th.wleft--
		if th.kind == "checked" {
			sc.inflight--
		}
		sc.log("WorkEnd", th.id, M{"x": 0})
	case "End":
		th.run--
		th.ends++
		if th.kind == "checked" {
			sc.running--
		}
		sc.log("End", th.id, M{"x": 0})
		if th.ends > th.starts {
			sc.unbalanced(th, "EndProcessing without a matching StartProcessing")
		}
	}
}

// unbalanced: the call counts of the decorator show that one message started/ended the throttler a wrong number of times
func (sc *scenario) unbalanced(th *thread, what string) {
	sc.odd = true
	sc.r.violation("start-end-unbalanced/"+sc.path+"/"+th.sub, fmt.Sprintf("%s path, message class %s: %s (%d StartProcessing, %d EndProcessing calls for this message); "+
		"events: %s", sc.path, th.sub, what, th.starts, th.ends, sc.summary()), sc.detail())
}

func (sc *scenario) summary() string {
	s := ""
	for _, e := range sc.events {
		s += fmt.Sprintf("%s(%v) ", e.a, e.in["t"])
	}
	return s
}

func (sc *scenario) detail() M {
	kinds := make([]M, len(sc.ths))
	for i, th := range sc.ths {
		kinds[i] = M{"k": th.kind, "sub": th.sub}
		_ = i
	}
	evs := make([]M, len(sc.events))
	for i, e := range sc.events {
		evs[i] = M{"a": e.a, "in": e.in, "out": e.out}
	}
	return M{"max": sc.max, "path": sc.path, "kinds": kinds, "observed_events": evs}
}

// open = StartProcessing calls minus EndProcessing calls seen by the decorators (the throttler's counter, as it should be)
func (sc *scenario) open() int {
	n := 0
	for _, th := range sc.ths {
		n += th.starts - th.ends
	}
	return n
}

// drainThread lets one thread run to completion, granting every call at once
func (sc *scenario) drainThread(th *thread) {
	for {
		op, got := th.next(waitOp)
		if !got {
			if !th.returned {
				sc.r.broken(fmt.Sprintf("%s/%s: thread neither returned nor called the throttler within %v", sc.path, th.sub, waitOp))
			}
			if th.run > 0 || th.wleft > 0 {
				if th.run > 0 {
					th.leaked = true
				}
				th.wleft = 0
				if missing++; missing >= 3 {
					waitOp = 500 * time.Millisecond
				}
			}
			return
		}
		res := th.perform()
		sc.account(th, op, res, false, false)
	}
}

func (sc *scenario) drain() {
	for _, th := range sc.ths { // work in flight first, then open tasks: draining must not create an overlap of its own
		if th.work > 0 {
			sc.drainThread(th)
		}
	}
	for _, th := range sc.ths {
		if th.run > 0 {
			sc.drainThread(th)
		}
	}
	for _, th := range sc.ths {
		if !(th.returned && th.run == 0 && th.pending == "" && th.wleft <= 0) {
			ops := len(sc.events)
			sc.drainThread(th)
			if th.kind == "none" && len(sc.events) == ops {
				sc.log("Skip", th.id, M{"x": 0})
			}
		}
	}
	// stray asynchronous calls (e.g. a second EndProcessing) block on their gate: poll once more
	for i := 0; i < 10; i++ {
		runtime.Gosched()
	}
	time.Sleep(50 * time.Microsecond)
	for _, th := range sc.ths {
		if th.leaked {
			continue
		}
		select {
		case op := <-th.g.ann:
			th.pending = op
			res := th.perform2()
			sc.account(th, op, res, false, false)
		default:
		}
	}
}

func (th *thread) perform2() bool {
	th.pending = ""
	return th.perform()
}

func (sc *scenario) quiesce() {
	for _, th := range sc.ths {
		if th.starts != th.ends && !th.leaked && th.ends < th.starts {
			sc.unbalanced(th, "the message was handled but its task was never ended")
		}
	}
	free := 0
	for sc.real.CanProcess() && free < sc.max+8 {
		sc.real.StartProcessing()
		free++
	}
	for i := 0; i < free; i++ {
		sc.real.EndProcessing()
	}
	sc.events = append(sc.events, event{"Quiesce", M{"t": 0}, M{"free": free}})
	if free != sc.max {
		sc.odd = true
		subs := ""
		for _, th := range sc.ths {
			if th.run != 0 || th.leaked {
				subs += "/" + th.sub
			}
		}
		if subs == "" {
			// every StartProcessing was matched by an EndProcessing: the throttler itself admits a wrong number at rest
			cls := "admits-more-than-max-at-rest/"
			if free < sc.max {
				cls = "admits-fewer-than-max-at-rest/"
			}
			sc.r.violation(cls+sc.path, fmt.Sprintf("%s path, max %d: with no task running the throttler admits %d tasks (CanProcess/StartProcessing "+
				"until refused); events: %s", sc.path, sc.max, free, sc.summary()), sc.detail())
			return
		}
		sc.r.violation("counter-not-restored/"+sc.path+subs, fmt.Sprintf("%s path, max %d: after all messages were handled the throttler admits %d tasks instead of %d "+
			"(StartProcessing and EndProcessing calls do not match); events: %s", sc.path, sc.max, free, sc.max, sc.summary()), sc.detail())
	}
}

func (sc *scenario) play(steps []vtrace.Step) {
	for _, s := range steps {
		if sc.diverged != "" {
			break
		}
		if s.A == "Quiesce" {
			break
		}
		t := vtrace.Int(s.In["t"])
		th := sc.ths[t-1]
		raced, _ := s.St["raced"].(bool)
		if raced {
			sc.raced = true
		}
		switch s.A {
		case "Skip":
			op, got := th.next(waitOp)
			if got {
				th.pending = op
				sc.diverge(fmt.Sprintf("thread %d (%s) called %s, the specification expects no throttler call", t, th.sub, op))
				break
			}
			if !th.returned {
				sc.r.broken(fmt.Sprintf("%s/%s: thread did not return", sc.path, th.sub))
			}
			sc.log("Skip", t, M{"x": 0})
		case "Check", "Start", "End", "WorkBegin", "WorkEnd":
			op, got := th.next(waitOp)
			if !got {
				sc.diverge(fmt.Sprintf("thread %d (%s) made no %s call (returned=%v)", t, th.sub, s.A, th.returned))
				break
			}
			if op != s.A {
				th.pending = op
				sc.diverge(fmt.Sprintf("thread %d (%s) called %s where the specification expects %s", t, th.sub, op, s.A))
				break
			}
			res := th.perform()
			sc.account(th, op, res, raced, true)
			sc.r.steps++
			if op == "Check" {
				want, _ := s.Out["ok"].(bool)
				if !res {
					th.wleft = 0
				}
				if res != want {
					sc.diverge(fmt.Sprintf("CanProcess of thread %d returned %v, the specification predicts %v", t, res, want))
					if res {
						// the caller believes it is admitted and nothing happened since its check: let it start now
						if op2, got2 := th.next(waitOp); got2 && op2 == "Start" {
							r2 := th.perform()
							sc.account(th, op2, r2, false, false)
						} else if got2 {
							th.pending = op2
						}
					}
				} else if !res {
					th.wleft = 0
					// not admitted: the caller must return without starting
					if op2, got2 := th.next(waitOp); got2 {
						th.pending = op2
						sc.diverge(fmt.Sprintf("thread %d (%s) called %s after CanProcess returned false", t, th.sub, op2))
					}
				}
			} else if want := vtrace.Int(s.St["running"]); want != sc.running {
				sc.diverge(fmt.Sprintf("%d admitted tasks running after %s(%d), the specification predicts %d", sc.running, op, t, want))
			} else if want := vtrace.Int(s.St["inflight"]); want != sc.inflight {
				sc.diverge(fmt.Sprintf("%d admitted messages being processed after %s(%d), the specification predicts %d", sc.inflight, op, t, want))
			} else if want, got := vtrace.Int(s.St["counter"]), sc.open(); want != got {
				sc.diverge(fmt.Sprintf("StartProcessing minus EndProcessing calls = %d after %s(%d), the specification's counter is %d", got, op, t, want))
			}
		default:
			sc.r.broken("unknown step " + s.A)
		}
	}
	sc.drain()
	sc.quiesce()
}

// ---------------------------------------------------------------------------------------------- runner
type runner struct {
	all, norace *vtrace.Writer
	dist        *vtrace.Distinct
	beh, steps  int
	diverged    int
	viol        map[string]int
	brokenN     int
	samples     int
	racesSeen   int
	racyBeh     int
	every       int
	logged      int
}

func (r *runner) violation(sig, what string, detail M) {
	r.viol[sig]++
	if r.viol[sig] <= 1 && len(r.viol) <= 8 { // one report per class of failure, a handful per run
		vtrace.Violation(prop, prop+"/"+sig, what, detail)
	}
}

func (r *runner) broken(what string) {
	r.brokenN++
	if r.brokenN <= 3 {
		vtrace.Broken(what)
	}
}

func (r *runner) behaviour(b []vtrace.Step) {
	if len(b) == 0 || b[0].A != "New" {
		r.broken("behaviour does not start with New")
		return
	}
	max := vtrace.Int(b[0].In["max"])
	path := vtrace.Str(b[0].In["path"])
	real, err := throttler.NewNumGoRoutinesThrottler(int32(max))
	if err != nil {
		panic(err)
	}
	sc := &scenario{r: r, max: max, path: path, real: real}
	kinds := b[0].In["kinds"].([]interface{})
	kindsM := make([]M, len(kinds))
	key := fmt.Sprint(max, path)
	for i, kv := range kinds {
		km := kv.(map[string]interface{})
		th := &thread{id: i + 1, kind: vtrace.Str(km["k"]), sub: vtrace.Str(km["sub"]), wleft: vtrace.Int(km["w"]), g: newGate(real), ret: make(chan error, 1)}
		w0 := th.wleft
		switch path {
		case "single":
			buildSingle(th)
		case "multi":
			buildMulti(th)
		case "resolver":
			buildResolver(th)
		default:
			panic("unknown path " + path)
		}
		sc.ths = append(sc.ths, th)
		kindsM[i] = M{"k": th.kind, "sub": th.sub, "w": w0}
		key += " " + th.sub
	}
	for _, s := range b[1:] {
		key += fmt.Sprintf(" %s%d", s.A, vtrace.Int(s.In["t"]))
	}
	sc.play(b[1:])
	r.beh++
	if len(b) >= 3 {
		r.dist.Add(key)
	}
	if sc.diverged != "" {
		r.diverged++
		if r.diverged <= 3 {
			vtrace.Drift(prop, fmt.Sprintf("%s path, max %d, kinds %v: %s", path, max, kindsM, sc.diverged), sc.detail())
		}
	}
	if sc.raced {
		r.racyBeh++
	}
	if sc.overMax {
		r.racesSeen++
		if r.samples < 3 {
			r.samples++
			vtrace.Sample(prop, sc.detail())
		}
	}
	// a run that followed the predicted schedule step by step IS a behaviour of the specification (checked by R1);
	// TLC gets every run that left the prediction or showed anything odd, and every `every`-th run as binding sample
	odd := sc.diverged != "" || sc.odd || (sc.overMax && !sc.raced)
	if !odd && r.beh%r.every != 0 {
		return
	}
	r.logged++
	ws := []*vtrace.Writer{r.all}
	if !sc.raced && !sc.overMax {
		ws = append(ws, r.norace)
	}
	for _, w := range ws {
		w.NewTraceWith("New", M{"max": max, "path": path, "kinds": kindsM}, M{"x": 0}, M{})
		for _, e := range sc.events {
			w.Emit(e.a, e.in, e.out, M{})
		}
	}
}

func main() {
	vtrace.Quiet()
	if len(os.Args) < 5 || os.Args[1] != "replay" {
		fmt.Println("usage: vh-throttler replay <behaviours> <trace-all> <trace-norace>")
		os.Exit(2)
	}
	lines, err := vtrace.ReadLines(os.Args[2])
	if err != nil {
		vtrace.Broken(err.Error())
		os.Exit(1)
	}
	all, err := vtrace.NewWriter(os.Args[3])
	if err != nil {
		panic(err)
	}
	norace, err := vtrace.NewWriter(os.Args[4])
	if err != nil {
		panic(err)
	}
	r := &runner{all: all, norace: norace, dist: vtrace.NewDistinct(), viol: map[string]int{}, every: 1}
	if len(os.Args) > 5 {
		fmt.Sscan(os.Args[5], &r.every)
		if r.every < 1 {
			r.every = 1
		}
	}
	for _, ln := range lines {
		var b []vtrace.Step
		if e := json.Unmarshal(ln, &b); e != nil {
			vtrace.Broken(fmt.Sprintf("bad behaviour: %v", e))
			os.Exit(1)
		}
		r.behaviour(b)
	}
	_ = all.Close()
	_ = norace.Close()
	vtrace.Stat("behaviours", r.beh)
	vtrace.Stat("steps", r.steps)
	vtrace.Stat("events_all", all.N)
	vtrace.Stat("events_norace", norace.N)
	vtrace.Stat("distinct", r.dist.Len())
	vtrace.Stat("diverged", r.diverged)
	vtrace.Stat("runs_logged", r.logged)
	vtrace.Stat("behaviours_labelled_raced", r.racyBeh)
	vtrace.Stat("behaviours_over_max_observed", r.racesSeen)
}
