// vh-delegation binds specs/Delegation to the REAL delegation system smart contract
// (vm/systemSmartContracts/delegation.go): one contract instance created through the real delegation manager
// (createNewDelegationContract -> DeploySystemSC -> init), staking through the real validator SC (stake /
// unStakeTokens / unBondTokens via eei.ExecuteOnDestContext), all on a real vmContext (harness/families/sysvm).
//
//	vh-delegation replay <behaviours.ndjson> <mismatch-trace-out>
//	vh-delegation record <seed> <traces> <len> <out>
//	vh-delegation demo
//
// After every call the projection reads GlobalFundData, the DelegationConfig, the service fee, every
// DelegatorData, every Fund it references and the reward records straight from the contract's committed storage,
// and the value transferred to the caller from the VM output.  No model logic here.
package main

import (
	"bytes"
	"encoding/json"
	"fmt"
	"math/big"
	"math/rand"
	"os"
	"reflect"
	"sort"
	"strconv"

	"github.com/ElrondNetwork/elrond-go/config"
	"github.com/ElrondNetwork/elrond-go/marshal"
	"github.com/ElrondNetwork/elrond-go/vm"
	"github.com/ElrondNetwork/elrond-go/vm/mock"
	"github.com/ElrondNetwork/elrond-go/vm/systemSmartContracts"
	vmcommon "github.com/ElrondNetwork/elrond-vm-common"
	"verif/harness/families/sysvm"
	"verif/harness/internal/vtrace"
)

type M = vtrace.M

const (
	prop     = "C38"
	knownSig = "C38/computeAndUpdateRewards/no-active-fund/stale-checkpoint-overpays"
)

var marsh = &marshal.GogoProtoMarshalizer{}

var delegators = []string{"o", "x", "y"}       // TLC-generated behaviours
var delegators4 = []string{"o", "x", "y", "z"} // recorded histories (New.in.ds)

func pad(s string, n int) []byte {
	b := bytes.Repeat([]byte{'.'}, n)
	copy(b, s)
	return b
}

func user(d string) []byte { return pad("user-"+d, 32) }

type epochHandler interface {
	EpochConfirmed(epoch uint32, timestamp uint64)
}

type sut struct {
	w    *sysvm.World
	addr []byte   // the delegation contract instance
	ds   []string // delegator names projected (the owner "o" first)
}

const never = uint32(1000000)

func flagEpoch(on bool) uint32 {
	if on {
		return 0
	}
	return never
}

func must(err error) {
	if err != nil {
		panic(err)
	}
}

func nbytes(n int) []byte { return big.NewInt(int64(n)).Bytes() }

func newSut(conf M) *sut {
	w, err := sysvm.NewWorld()
	must(err)
	w.Epoch = uint32(vtrace.Int(conf["e0"]))
	w.Nonce, w.Round = 100, 100
	period := uint32(vtrace.Int(conf["period"]))
	stakingCfg := config.StakingSystemSCConfig{
		GenesisNodePrice:         "1000",
		MinStakeValue:            "1000",
		UnJailValue:              "1",
		MinStepValue:             "1",
		UnBondPeriod:             1,
		UnBondPeriodInEpochs:     period,
		MaxNumberOfNodesForStake: 10,
		MinUnstakeTokensValue:    "1",
	}
	epochs := config.EpochConfig{EnableEpochs: config.EnableEpochs{
		StakeEnableEpoch:                   0,
		StakingV2EnableEpoch:               0,
		DoubleKeyProtectionEnableEpoch:     0,
		DelegationManagerEnableEpoch:       0,
		DelegationSmartContractEnableEpoch: 0,
		CorrectLastUnjailedEnableEpoch:     0,
		UnbondTokensV2EnableEpoch:          flagEpoch(conf["ubv2"].(bool)),
		ReDelegateBelowMinCheckEnableEpoch: flagEpoch(conf["belowMin"].(bool)),
		ValidatorToDelegationEnableEpoch:   never,
	}}
	delCfg := config.DelegationSystemSCConfig{MinServiceFee: 0, MaxServiceFee: 10000}
	mgrCfg := config.DelegationManagerSystemSCConfig{
		MinCreationDeposit:  strconv.Itoa(vtrace.Int(conf["minDep"])),
		MinStakeAmount:      strconv.Itoa(vtrace.Int(conf["minDel"])),
		ConfigChangeAddress: "x",
	}
	notifier := &mock.EpochNotifierStub{}
	staking, err := systemSmartContracts.NewStakingSmartContract(systemSmartContracts.ArgsNewStakingSmartContract{
		Eei: w.Eei, StakingAccessAddr: vm.ValidatorSCAddress, JailAccessAddr: vm.JailingAddress,
		EndOfEpochAccessAddr: vm.EndOfEpochAddress, MinNumNodes: 1, Marshalizer: marsh,
		StakingSCConfig: stakingCfg, EpochNotifier: notifier, EpochConfig: epochs,
	})
	must(err)
	validator, err := systemSmartContracts.NewValidatorSmartContract(systemSmartContracts.ArgsValidatorSmartContract{
		StakingSCConfig: stakingCfg, GenesisTotalSupply: big.NewInt(1000000000), Eei: w.Eei,
		SigVerifier: &mock.MessageSignVerifierMock{}, StakingSCAddress: vm.StakingSCAddress,
		ValidatorSCAddress: vm.ValidatorSCAddress, Marshalizer: marsh, EpochNotifier: notifier,
		EndOfEpochAddress: vm.EndOfEpochAddress, MinDeposit: "0", DelegationMgrSCAddress: vm.DelegationManagerSCAddress,
		GovernanceSCAddress: vm.GovernanceSCAddress, DelegationMgrEnableEpoch: 0, EpochConfig: epochs,
		ShardCoordinator: &mock.ShardCoordinatorStub{},
	})
	must(err)
	mgr, err := systemSmartContracts.NewDelegationManagerSystemSC(systemSmartContracts.ArgsNewDelegationManager{
		DelegationMgrSCConfig: mgrCfg, DelegationSCConfig: delCfg, EpochConfig: epochs, Eei: w.Eei,
		DelegationMgrSCAddress: vm.DelegationManagerSCAddress, StakingSCAddress: vm.StakingSCAddress,
		ValidatorSCAddress: vm.ValidatorSCAddress, ConfigChangeAddress: pad("config-change", 32),
		Marshalizer: marsh, EpochNotifier: notifier,
	})
	must(err)
	del, err := systemSmartContracts.NewDelegationSystemSC(systemSmartContracts.ArgsNewDelegation{
		DelegationSCConfig: delCfg, EpochConfig: epochs, StakingSCConfig: stakingCfg, Eei: w.Eei,
		SigVerifier: &mock.MessageSignVerifierMock{}, DelegationMgrSCAddress: vm.DelegationManagerSCAddress,
		StakingSCAddress: vm.StakingSCAddress, ValidatorSCAddress: vm.ValidatorSCAddress,
		EndOfEpochAddress: vm.EndOfEpochAddress, GovernanceSCAddress: vm.GovernanceSCAddress,
		Marshalizer: marsh, EpochNotifier: notifier,
	})
	must(err)
	for _, h := range []epochHandler{staking, validator, mgr, del} {
		h.EpochConfirmed(w.Epoch, 0)
	}
	must(w.Container.Add(vm.StakingSCAddress, staking))
	must(w.Container.Add(vm.ValidatorSCAddress, validator))
	must(w.Container.Add(vm.DelegationManagerSCAddress, mgr))
	must(w.Container.Add(vm.FirstDelegationSCAddress, del))
	genesis := pad("genesis", 32)
	for _, a := range [][]byte{vm.StakingSCAddress, vm.ValidatorSCAddress, vm.DelegationManagerSCAddress} {
		if rc := w.Init(a, genesis, nil); rc != vmcommon.Ok {
			panic("init failed")
		}
	}
	ds := delegators
	if l, ok := conf["ds"]; ok {
		ds = vtrace.Strs(norm(l))
	}
	for _, d := range ds {
		w.Balances[string(user(d))] = big.NewInt(1000000)
	}
	w.Balances[string(vm.EndOfEpochAddress)] = big.NewInt(1000000)
	res := w.Call(vm.DelegationManagerSCAddress, user("o"), "createNewDelegationContract",
		[][]byte{nbytes(vtrace.Int(conf["cap"])), nbytes(vtrace.Int(conf["fee"]))}, big.NewInt(int64(vtrace.Int(conf["v0"]))))
	if res.Code != vmcommon.Ok || len(res.Data) == 0 {
		panic(fmt.Sprintf("createNewDelegationContract failed: %v %s", res.Code, res.Message))
	}
	return &sut{w: w, addr: res.Data[len(res.Data)-1], ds: ds}
}

// apply executes one specification action on the real contract: (returned Ok, value transferred to the caller)
func (s *sut) apply(a string, in M) (bool, int) {
	w := s.w
	d, _ := in["d"].(string)
	call := func(caller []byte, fn string, value int, args ...[]byte) (bool, int) {
		res := w.Call(s.addr, caller, fn, args, big.NewInt(int64(value)))
		if res.Code != vmcommon.Ok {
			return false, 0
		}
		paid := big.NewInt(0)
		for _, t := range res.Transfers {
			if t.Dest == string(caller) {
				paid.Add(paid, t.Value)
			}
		}
		return true, int(paid.Int64())
	}
	switch a {
	case "Delegate":
		return call(user(d), "delegate", vtrace.Int(in["v"]))
	case "ReDelegate":
		return call(user(d), "reDelegateRewards", 0)
	case "UnDelegate":
		return call(user(d), "unDelegate", 0, nbytes(vtrace.Int(in["v"])))
	case "Withdraw":
		return call(user(d), "withdraw", 0)
	case "Claim":
		return call(user(d), "claimRewards", 0)
	case "UpdateRewards":
		caller := vm.EndOfEpochAddress
		if !in["auth"].(bool) {
			caller = user("o")
		}
		return call(caller, "updateRewards", vtrace.Int(in["v"]))
	case "ChangeFee":
		return call(user(d), "changeServiceFee", 0, nbytes(vtrace.Int(in["f"])))
	case "ModifyCap":
		return call(user(d), "modifyTotalDelegationCap", 0, nbytes(vtrace.Int(in["c"])))
	case "NextEpoch":
		w.Epoch++
		w.Nonce += 10
		w.Round += 10
		return true, 0
	}
	panic("unknown action " + a)
}

func bi(x *big.Int) int {
	if x == nil {
		return 0
	}
	return int(x.Int64())
}

// proj reads the committed storage of the contract instance
func (s *sut) proj() M {
	w := s.w
	get := func(key []byte) []byte { return w.Get(s.addr, key) }
	cfg := &systemSmartContracts.DelegationConfig{}
	if buf := get([]byte("delegationConfig")); len(buf) > 0 {
		must(marsh.Unmarshal(cfg, buf))
	}
	gf := &systemSmartContracts.GlobalFundData{}
	if buf := get([]byte("globalFund")); len(buf) > 0 {
		must(marsh.Unmarshal(gf, buf))
	}
	fund := func(key []byte) (bool, *systemSmartContracts.Fund) {
		buf := get(key)
		if len(key) == 0 || len(buf) == 0 {
			return false, &systemSmartContracts.Fund{}
		}
		f := &systemSmartContracts.Fund{}
		must(marsh.Unmarshal(f, buf))
		return true, f
	}
	del := M{}
	for _, d := range s.ds {
		buf := get(user(d))
		dd := &systemSmartContracts.DelegatorData{}
		if len(buf) > 0 {
			must(marsh.Unmarshal(dd, buf))
		}
		un := []interface{}{}
		for _, k := range dd.UnStakedFunds {
			ok, f := fund(k)
			un = append(un, M{"ok": ok, "v": bi(f.Value), "e": int(f.Epoch)})
		}
		aok, af := false, &systemSmartContracts.Fund{}
		if len(dd.ActiveFund) > 0 {
			aok, af = fund(dd.ActiveFund)
		}
		// what the real contract would pay the delegator now: its own view function getClaimableRewards
		clm := 0
		if rc, data := w.Query(s.addr, user(d), "getClaimableRewards", [][]byte{user(d)}); rc == vmcommon.Ok && len(data) > 0 {
			clm = bi(big.NewInt(0).SetBytes(data[len(data)-1]))
		}
		del[d] = M{"ex": len(buf) > 0, "has": len(dd.ActiveFund) > 0, "aok": aok, "a": bi(af.Value), "un": un,
			"unc": bi(dd.UnClaimedRewards), "ckpt": int(dd.RewardsCheckpoint), "clm": clm}
	}
	rew := []interface{}{}
	for e := uint32(0); e <= w.Epoch; e++ {
		buf := get(append([]byte("reward"), big.NewInt(int64(e)).Bytes()...))
		if len(buf) == 0 {
			continue
		}
		r := &systemSmartContracts.RewardComputationData{}
		must(marsh.Unmarshal(r, buf))
		rew = append(rew, M{"e": int(e), "td": bi(r.RewardsToDistribute), "ta": bi(r.TotalActive), "fee": int(r.ServiceFee)})
	}
	return M{
		"epoch": int(w.Epoch),
		"iof":   bi(cfg.InitialOwnerFunds),
		"cap":   bi(cfg.MaxDelegationCap),
		"fee":   bi(big.NewInt(0).SetBytes(get([]byte("serviceFee")))),
		"tot":   M{"active": bi(gf.TotalActive), "unstaked": bi(gf.TotalUnStaked)},
		"del":   del,
		"rew":   rew,
	}
}

func norm(v interface{}) interface{} {
	b, err := json.Marshal(v)
	must(err)
	var x interface{}
	must(json.Unmarshal(b, &x))
	return x
}

func same(a, b interface{}) bool { return reflect.DeepEqual(norm(a), norm(b)) }

func replay(path, mismatchOut string) {
	bs, err := vtrace.ReadBehaviours(path)
	if err != nil {
		vtrace.Broken(err.Error())
		return
	}
	mw, err := vtrace.NewWriter(mismatchOut)
	if err != nil {
		vtrace.Broken(err.Error())
		return
	}
	distinct := vtrace.NewDistinct()
	steps, mism, kdSeen, kdNot := 0, 0, 0, 0
	acts := map[string]int{}
	okActs := map[string]int{}
	type obs struct {
		a   string
		in  M
		out M
		st  M
	}
	for bi, b := range bs {
		var s *sut
		var seen []obs
		differs := -1
		for si, stp := range b {
			if stp.A == "New" {
				s = newSut(stp.In)
				seen = append(seen, obs{"New", stp.In, M{"ok": true, "paid": 0}, s.proj()})
				if len(stp.St) > 0 && !same(stp.St, seen[0].st) {
					differs = si
				}
				continue
			}
			ok, paid := s.apply(stp.A, stp.In)
			st := s.proj()
			steps++
			if ok {
				okActs[stp.A]++
			}
			seen = append(seen, obs{stp.A, stp.In, M{"ok": ok, "paid": paid}, st})
			eq := ok == stp.Out["ok"].(bool) && paid == vtrace.Int(stp.Out["paid"]) && (len(stp.St) == 0 || same(stp.St, st))
			if !eq && differs < 0 {
				differs = si
			}
			if kd, _ := stp.Out["kd"].(bool); kd && differs < 0 {
				kdSeen++
				if kdSeen == 1 {
					vtrace.Violation(prop, knownSig,
						fmt.Sprintf("behaviour %d step %d: %s(%v) by a delegator whose active fund had been emptied: RewardsCheckpoint was not advanced "+
							"while it had no active fund (real delegator record %v, rewards %v): it is now entitled to rewards of epochs in which it "+
							"had no stake, so rewards owed + paid exceed rewards received",
							bi, si, stp.A, stp.In, st["del"].(M)[stp.In["d"].(string)], st["rew"]),
						M{"behaviour": b, "step": si})
				}
			} else if kd {
				kdNot++
			}
		}
		if len(b) > 1 {
			last := b[len(b)-1]
			acts[last.A]++
			ops := make([]interface{}, 0, 2*len(b))
			for _, x := range b {
				ops = append(ops, x.A, norm(x.In))
			}
			distinct.Add(fmt.Sprint(ops))
		}
		if differs >= 0 {
			mism++
			if mism <= 200 {
				for i, o := range seen {
					if i == 0 {
						mw.NewTraceWith(o.a, o.in, o.out, o.st)
					} else {
						mw.Emit(o.a, o.in, o.out, o.st)
					}
				}
			}
			if mism <= 3 {
				stp := b[differs]
				vtrace.Drift(prop, fmt.Sprintf("behaviour %d step %d %s(%v): real result/state %v %v differs from the specification's %v %v",
					bi, differs, stp.A, stp.In, seen[differs].out, seen[differs].st, stp.Out, stp.St), nil)
			}
		}
		if bi < 2 || (bi%977 == 0 && bi < 4000) {
			vtrace.Sample(prop, b)
		}
	}
	must(mw.Close())
	vtrace.Stat("behaviours", len(bs))
	vtrace.Stat("steps", steps)
	vtrace.Stat("distinct_transitions", distinct.Len())
	vtrace.Stat("mismatching", mism)
	vtrace.Stat("mismatch_events", mw.N)
	vtrace.Stat("known_deviation_reproduced", kdSeen)
	vtrace.Stat("known_deviation_not_reproduced", kdNot)
	vtrace.Stat("last_actions", acts)
	vtrace.Stat("ok_actions", okActs)
}

func record(seed int64, traces, n int, out string) {
	w, err := vtrace.NewWriter(out)
	if err != nil {
		vtrace.Broken(err.Error())
		return
	}
	rng := rand.New(rand.NewSource(seed))
	acts := map[string]int{}
	okCalls := 0
	fees := []int{0, 0, 1000, 2500, 3333, 10000}
	arithmetic(w)
	for t := 0; t < traces; t++ {
		minDel := []int{3, 5, 10}[rng.Intn(3)]
		minDep := minDel + rng.Intn(4)
		capv := 0
		if rng.Intn(3) == 0 {
			capv = 3*minDel + rng.Intn(40)
		}
		v0 := minDep + rng.Intn(6)
		if capv != 0 && v0 > capv {
			capv = v0 + 5
		}
		conf := norm(M{"minDel": minDel, "minDep": minDep, "period": rng.Intn(4), "cap": capv, "fee": fees[rng.Intn(len(fees))],
			"belowMin": rng.Intn(4) != 0, "v0": v0, "e0": rng.Intn(4), "ubv2": rng.Intn(3) != 0, "ds": delegators4}).(map[string]interface{})
		s := newSut(conf)
		w.NewTraceWith("New", conf, M{"ok": true, "paid": 0}, s.proj())
		amount := func() int {
			switch rng.Intn(6) {
			case 0:
				return minDel
			case 1:
				return minDel - 1
			case 2:
				return minDel + 1
			case 3:
				return 1 + rng.Intn(2)
			}
			return 1 + rng.Intn(3*minDel)
		}
		for i := 0; i < n; i++ {
			d := delegators4[rng.Intn(4)]
			var a string
			in := M{"d": d}
			switch r := rng.Intn(100); {
			case r < 24:
				a = "Delegate"
				in["v"] = amount()
			case r < 46:
				a = "UnDelegate"
				v := amount()
				if rng.Intn(3) == 0 { // everything the delegator has
					if cur := vtrace.Int(s.proj()["del"].(M)[d].(M)["a"]); cur > 0 {
						v = cur
					}
				}
				in["v"] = v
			case r < 58:
				a = "Withdraw"
			case r < 70:
				a = "Claim"
			case r < 78:
				a = "ReDelegate"
			case r < 88:
				a = "UpdateRewards"
				in = M{"v": []int{0, 7, 10, 25, 100, 101, 105}[rng.Intn(7)], "auth": rng.Intn(12) != 0}
			case r < 90:
				a = "ChangeFee"
				in["f"] = fees[rng.Intn(len(fees))]
			case r < 92:
				a = "ModifyCap"
				in["c"] = []int{0, 10, 30, 60}[rng.Intn(4)]
			default:
				a = "NextEpoch"
				in = M{"x": 0}
			}
			ok, paid := s.apply(a, in)
			if ok {
				okCalls++
			}
			acts[a]++
			w.Emit(a, in, M{"ok": ok, "paid": paid}, s.proj())
		}
		// every delegator claims at the end: the history in which all rewards owed are paid out
		for _, d := range delegators4 {
			ok, paid := s.apply("Claim", M{"d": d})
			w.Emit("Claim", M{"d": d}, M{"ok": ok, "paid": paid}, s.proj())
		}
	}
	must(w.Close())
	vtrace.Stat("events", w.N)
	vtrace.Stat("traces", traces)
	vtrace.Stat("ok_calls", okCalls)
	vtrace.Stat("actions", acts)
}

// arithmetic: directed histories for the rewards clause -- several delegators with equal and unequal stakes that do not
// divide the epoch rewards, service fees 0 / 10 / 33.33 %, several epochs; then some re-delegate and everybody
// claims, more epochs, everybody claims again.  (Deterministic: independent of the seed.)
func arithmetic(w *vtrace.Writer) {
	stakeSets := [][]int{{25, 25, 25, 25}, {1, 2, 3}, {33, 33, 34}, {7, 5, 3, 11}}
	rewardSets := [][]int{{105, 7}, {101, 10}, {10, 7, 105}}
	for _, fee := range []int{0, 1000, 3333} {
		for si, stakes := range stakeSets {
			rewards := rewardSets[(si+fee)%len(rewardSets)]
			conf := norm(M{"minDel": 1, "minDep": 1, "period": 1, "cap": 0, "fee": fee, "belowMin": true, "v0": stakes[0],
				"e0": 1, "ubv2": true, "ds": delegators4}).(map[string]interface{})
			s := newSut(conf)
			w.NewTraceWith("New", conf, M{"ok": true, "paid": 0}, s.proj())
			do := func(a string, in M) {
				ok, paid := s.apply(a, in)
				w.Emit(a, in, M{"ok": ok, "paid": paid}, s.proj())
			}
			who := delegators4[:len(stakes)]
			for i, v := range stakes[1:] {
				do("Delegate", M{"d": who[i+1], "v": v})
			}
			for _, r := range rewards {
				do("NextEpoch", M{"x": 0})
				do("UpdateRewards", M{"v": r, "auth": true})
			}
			for i, d := range who { // every second one re-delegates, then everybody claims what is left
				if i%2 == 1 {
					do("ReDelegate", M{"d": d})
				}
			}
			for _, d := range who {
				do("Claim", M{"d": d})
			}
			for _, r := range rewards {
				do("NextEpoch", M{"x": 0})
				do("UpdateRewards", M{"v": r + 1, "auth": true})
			}
			for _, d := range who {
				do("Claim", M{"d": d})
			}
		}
	}
}

func demo() {
	conf := norm(M{"minDel": 3, "minDep": 4, "period": 1, "cap": 0, "fee": 0, "belowMin": true, "v0": 10, "e0": 1, "ubv2": true}).(map[string]interface{})
	s := newSut(conf)
	received, paidTotal := 0, 0
	show := func(what string, a string, in M) {
		ok, paid := s.apply(a, in)
		if a == "UpdateRewards" && ok {
			received += vtrace.Int(in["v"])
		}
		if a == "Claim" {
			paidTotal += paid
		}
		p := s.proj()
		keys := []string{}
		for k := range p["del"].(M) {
			keys = append(keys, k)
		}
		sort.Strings(keys)
		fmt.Printf("%-34s ok=%-5v paid=%-3d epoch=%v tot=%v received=%d paid=%d\n", what, ok, paid, p["epoch"], p["tot"], received, paidTotal)
		for _, k := range keys {
			fmt.Printf("      %s: %v\n", k, p["del"].(M)[k])
		}
	}
	show("x delegates 10", "Delegate", M{"d": "x", "v": 10})
	show("x unDelegates 10 (no active fund)", "UnDelegate", M{"d": "x", "v": 10})
	for i := 0; i < 3; i++ {
		show("next epoch", "NextEpoch", M{})
		show("rewards 10 (only o has stake)", "UpdateRewards", M{"v": 10, "auth": true})
	}
	show("x delegates 10 again", "Delegate", M{"d": "x", "v": 10})
	show("o claims", "Claim", M{"d": "o"})
	show("x claims", "Claim", M{"d": "x"})
}

func main() {
	vtrace.Quiet()
	if len(os.Args) < 2 {
		fmt.Fprintln(os.Stderr, "usage: vh-delegation replay <behaviours> <mismatch-out> | record <seed> <traces> <len> <out> | demo")
		os.Exit(2)
	}
	switch os.Args[1] {
	case "replay":
		replay(os.Args[2], os.Args[3])
	case "record":
		seed, _ := strconv.ParseInt(os.Args[2], 10, 64)
		traces, _ := strconv.Atoi(os.Args[3])
		n, _ := strconv.Atoi(os.Args[4])
		record(seed, traces, n, os.Args[5])
	case "demo":
		demo()
	default:
		os.Exit(2)
	}
}
