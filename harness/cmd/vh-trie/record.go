package main

import (
	"bytes"
	"math/rand"

	"github.com/ElrondNetwork/elrond-go/data"
	"github.com/ElrondNetwork/elrond-go/data/trie"
	"verif/harness/internal/vtrace"
)

// keyPool builds a key universe with engineered structure: keys that are byte-suffixes of one another
// (slot 16 of a branch), long shared suffixes (extensions; the trie indexes keys from their LAST byte),
// keys differing in a single nibble, the empty key, and (wide = true) 32-byte keys sharing 30 bytes.
func keyPool(rng *rand.Rand, n int, wide bool) [][]byte {
	alpha := []byte{0x11, 0x12, 0x21, 0x22, 0x1f, 0xf1}
	seen := map[string]bool{}
	var pool [][]byte
	add := func(k []byte) {
		if !seen[string(k)] && len(pool) < n {
			seen[string(k)] = true
			pool = append(pool, append([]byte{}, k...))
		}
	}
	if rng.Intn(3) != 0 {
		add([]byte{})
	}
	var tail []byte
	if wide {
		tail = bytes.Repeat([]byte{0xab}, 28+rng.Intn(3))
	}
	for len(pool) < n {
		l := rng.Intn(4)
		if wide {
			l = 1 + rng.Intn(3)
		}
		k := make([]byte, l)
		for i := range k {
			k[i] = alpha[rng.Intn(len(alpha))]
		}
		k = append(k, tail...)
		add(k)
		// a byte-suffix and a one-nibble neighbour of it
		if len(k) > 1 && rng.Intn(2) == 0 {
			add(k[1:])
		}
		if len(k) > 0 && rng.Intn(2) == 0 {
			k2 := append([]byte{}, k...)
			k2[rng.Intn(len(k2))] ^= 0x03
			add(k2)
		}
	}
	return pool
}

type recorder struct {
	w    *vtrace.Writer
	rids *vtrace.Interner
}

func (rc *recorder) rid(h []byte) int { return rc.rids.ID(h) }

func errFlag(err error, p string) int {
	if err != nil || p != "" {
		return 1
	}
	return 0
}

func leavesJSON(pairs [][2]string) []interface{} {
	res := make([]interface{}, 0, len(pairs))
	for _, p := range pairs {
		res = append(res, []interface{}{keyJSON([]byte(p[0])), valAbs([]byte(p[1]))})
	}
	return res
}

// record drives `traces` random histories of `n` operations each on real tries and logs every call with
// its observable result.  Nothing is compared here: Trace_Trie.tla decides.
func record(seed int64, traces, n int, out string) {
	w, err := vtrace.NewWriter(out)
	if err != nil {
		vtrace.Broken(err.Error())
		return
	}
	rc := &recorder{w: w, rids: vtrace.NewInterner()}
	rc.rid(trie.EmptyTrieHash) // id 1
	rng := rand.New(rand.NewSource(seed))
	levels := []int{1, 2, 3, 5, 8}
	for t := 0; t < traces; t++ {
		maxLevel := levels[rng.Intn(len(levels))]
		pool := keyPool(rng, 6+rng.Intn(11), t%5 == 4)
		tsm := newStorage()
		tr := newTrieOn(tsm, maxLevel)
		var committed [][]byte
		var others []data.Trie // further live instances over the same storage (RecreateKeep / Switch)
		w.NewTraceWith("New", M{"maxLevel": maxLevel}, M{"x": 0}, M{})
		for i := 0; i < n; i++ {
			k := pool[rng.Intn(len(pool))]
			switch r := rng.Intn(100); {
			case r < 40:
				v := 1 + rng.Intn(3)
				var err error
				p := safely(func() { err = tr.Update(k, valBytes(v)) })
				w.Emit("Update", M{"k": keyJSON(k), "v": v}, M{"err": errFlag(err, p)}, M{})
			case r < 48:
				var err error
				p := safely(func() { err = tr.Update(k, nil) })
				w.Emit("Update", M{"k": keyJSON(k), "v": 0}, M{"err": errFlag(err, p)}, M{})
			case r < 56:
				var err error
				p := safely(func() { err = tr.Delete(k) })
				w.Emit("Delete", M{"k": keyJSON(k)}, M{"err": errFlag(err, p)}, M{})
			case r < 76:
				if rng.Intn(3) == 0 {
					k = mutateKey(rng, k) // mostly keys that were never written
				}
				v, e := get(tr, k)
				if e != "" {
					v = -2
				}
				w.Emit("Get", M{"k": keyJSON(k)}, M{"v": v}, M{})
			case r < 83:
				h, e := rootHash(tr)
				if e != "" {
					h = []byte("error:" + e)
				}
				w.Emit("RootHash", M{"x": 0}, M{"rid": rc.rid(h), "empty": bytes.Equal(h, trie.EmptyTrieHash)}, M{})
			case r < 93:
				var err error
				p := safely(func() { err = tr.Commit() })
				h, e := rootHash(tr)
				if e != "" {
					h = []byte("error:" + e)
				}
				var pairs [][2]string
				var lerr error
				lp := safely(func() { pairs, lerr = leavesOf(tr, h) })
				if !bytes.Equal(h, trie.EmptyTrieHash) {
					committed = append(committed, h)
				}
				w.Emit("Commit", M{"x": 0}, M{"err": errFlag(err, p), "rid": rc.rid(h), "empty": bytes.Equal(h, trie.EmptyTrieHash),
					"lerr": errFlag(lerr, lp), "leaves": leavesJSON(pairs), "nleaves": len(pairs)}, M{})
			case r < 96 && len(committed) > 0 && len(others) < 3:
				// recreate while the original stays in use: its own last committed root or an older one
				root := committed[len(committed)-1]
				if rng.Intn(2) == 0 {
					root = committed[rng.Intn(len(committed))]
				}
				var t2 data.Trie
				var err error
				p := safely(func() { t2, err = tr.Recreate(root) })
				e := errFlag(err, p)
				after := -1
				if e == 0 && t2 != nil {
					others = append(others, tr)
					tr = t2
					if h, he := rootHash(tr); he == "" {
						after = rc.rid(h)
					}
				}
				w.Emit("RecreateKeep", M{"rid": rc.rid(root)}, M{"err": e, "rid": after}, M{})
			case r < 98 && len(others) > 0:
				j := rng.Intn(len(others))
				tr, others[j] = others[j], tr
				w.Emit("Switch", M{"i": j + 1}, M{"x": 0}, M{})
			default:
				root := trie.EmptyTrieHash
				if len(committed) > 0 && rng.Intn(8) != 0 {
					root = committed[rng.Intn(len(committed))]
				}
				var t2 data.Trie
				var err error
				p := safely(func() { t2, err = tr.Recreate(root) })
				e := errFlag(err, p)
				after := -1
				if e == 0 && t2 != nil {
					tr = t2
					if h, he := rootHash(tr); he == "" {
						after = rc.rid(h)
					}
				}
				w.Emit("Recreate", M{"rid": rc.rid(root), "empty": bytes.Equal(root, trie.EmptyTrieHash)}, M{"err": e, "rid": after}, M{})
			}
		}
	}
	if err := w.Close(); err != nil {
		vtrace.Broken(err.Error())
	}
	vtrace.Stat("events", w.N)
	vtrace.Stat("traces", traces)
	vtrace.Stat("distinct_roots", rc.rids.Len())
}
