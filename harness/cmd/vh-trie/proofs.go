package main

import (
	"bufio"
	"bytes"
	"encoding/json"
	"fmt"
	"io"
	"math/rand"
	"os"
	"sort"

	"github.com/ElrondNetwork/elrond-go/data"
	"verif/harness/internal/vtrace"
)

// proofSut is one concrete trie in the two forms proofs are served from:
// mem = built by updates, never committed (all nodes in memory, dirty);
// re  = committed with maxTrieLevelInMemory 1 and recreated from its root hash (what the API does:
//
//	facade.VerifyProof -> accounts.GetTrie(rootHash) -> trie.VerifyProof), all nodes collapsed.
type proofSut struct {
	contents map[string]int
	mem, re  data.Trie
	proofs   map[string][][]byte // GetProof of every stored key (from mem)
	broken   string
}

func buildProofSut(contents map[string]int) *proofSut {
	ps := &proofSut{contents: contents, proofs: map[string][][]byte{}}
	keys := make([]string, 0, len(contents))
	for k := range contents {
		keys = append(keys, k)
	}
	sort.Strings(keys)
	ps.mem = newTrieOn(newStorage(), 5)
	tsm := newStorage()
	tmp := newTrieOn(tsm, 1)
	for _, k := range keys {
		if err := ps.mem.Update([]byte(k), valBytes(contents[k])); err != nil {
			ps.broken = err.Error()
			return ps
		}
		if err := tmp.Update([]byte(k), valBytes(contents[k])); err != nil {
			ps.broken = err.Error()
			return ps
		}
	}
	if err := tmp.Commit(); err != nil {
		ps.broken = err.Error()
		return ps
	}
	rh, err := tmp.RootHash()
	if err != nil {
		ps.broken = err.Error()
		return ps
	}
	ps.re, err = tmp.Recreate(rh)
	if err != nil {
		ps.broken = err.Error()
		return ps
	}
	return ps
}

// getProof calls the real GetProof; ok=false when it returns an error.
func getProof(tr data.Trie, k []byte) (pf [][]byte, ok bool, panicked string) {
	var err error
	panicked = safely(func() { pf, err = tr.GetProof(k) })
	return pf, err == nil && panicked == "", panicked
}

// verify calls the real VerifyProof: "true" | "false" | "panic" (+ detail)
func verify(tr data.Trie, k []byte, pf [][]byte) (verdict, detail string) {
	var ok bool
	var err error
	if p := safely(func() { ok, err = tr.VerifyProof(k, pf) }); p != "" {
		return "panic", p
	}
	if err != nil {
		return "false", "error: " + err.Error()
	}
	if ok {
		return "true", ""
	}
	return "false", ""
}

type proofRunner struct {
	cache    map[string]*proofSut
	rep      *reporter
	cases    int
	distinct *vtrace.Distinct
	deep     *vtrace.Distinct
	samples  int
}

func (pr *proofRunner) sut(m map[string]int) *proofSut {
	mk := mapKey(m)
	if ps, ok := pr.cache[mk]; ok {
		return ps
	}
	ps := buildProofSut(m)
	if ps.broken == "" {
		for k := range m {
			pf, ok, p := getProof(ps.mem, []byte(k))
			if !ok {
				pr.rep.report("C04", "C04/getproof-fails-for-stored-key",
					fmt.Sprintf("GetProof(%x) on a trie holding {%s} fails (panic=%q)", k, mk, p), M{"contents": mk, "key": keyJSON([]byte(k))})
				continue
			}
			ps.proofs[k] = pf
			pf2, ok2, _ := getProof(ps.re, []byte(k))
			if !ok2 || len(pf2) != len(pf) {
				pr.rep.report("C04", "C04/getproof-differs-after-recreate",
					fmt.Sprintf("GetProof(%x) on the recreated trie {%s}: ok=%v, %d nodes instead of %d", k, mk, ok2, len(pf2), len(pf)), M{"contents": mk})
				continue
			}
			for i := range pf {
				if !bytes.Equal(pf[i], pf2[i]) {
					pr.rep.report("C04", "C04/getproof-differs-after-recreate",
						fmt.Sprintf("GetProof(%x) node %d differs between the in-memory and the recreated trie {%s}", k, i, mk), M{"contents": mk})
					break
				}
			}
		}
	}
	pr.cache[mk] = ps
	return ps
}

// assemble maps the specification's node references (node i of the proof of stored key s) to real bytes
func assemble(ps *proofSut, refs interface{}) ([][]byte, bool) {
	var res [][]byte
	if refs == nil {
		return res, true
	}
	a, ok := refs.([]interface{})
	if !ok {
		return res, true // {} : empty sequence
	}
	for _, r := range a {
		rm := r.(map[string]interface{})
		src := ps.proofs[string(keyOf(rm["s"]))]
		i := vtrace.Int(rm["i"])
		if i < 1 || i > len(src) {
			return nil, false
		}
		res = append(res, src[i-1])
	}
	return res, true
}

// judge compares a real verdict with the property (violation) and with the specification's predictions (drift).
func (pr *proofRunner) judge(st vtrace.Step, ps *proofSut, form string, k []byte, real, detail string) {
	present := st.Out["present"].(bool)
	ideal := vtrace.Str(st.Out["ideal"])
	code := vtrace.Str(st.Out["code"])
	own := st.Out["own"].(bool)
	dev := vtrace.Str(st.Out["dev"])
	known := dev != "" && real == code && code != ideal
	what := fmt.Sprintf("VerifyProof(key %x, proof %v) on the %s trie holding {%s} = %s %s; specification: intended %s, code-as-is %s, key stored: %v",
		k, jsonText(st.In["pf"]), form, mapKey(ps.contents), real, detail, ideal, code, present)
	det := M{"case": st, "form": form, "real": real}
	switch {
	case real == "panic":
		if known {
			pr.rep.report("C04", "C04/"+dev+"/verify-panics", what, det)
		} else {
			pr.rep.report("C04", "C04/verify-panics", what, det)
		}
	case real == "true" && !present:
		if known {
			pr.rep.report("C04", "C04/"+dev+"/accepts-absent-key", what, det)
		} else {
			pr.rep.report("C04", "C04/accepts-absent-key", what, det)
		}
	case own && real != "true":
		pr.rep.report("C04", "C04/rejects-own-proof", what, det)
	case real != ideal && real != code:
		if pr.rep.perSig["drift"] < 3 {
			vtrace.Drift("C04", "verdict differs from both specification variants (property not affected): "+what, det)
		}
		pr.rep.perSig["drift"]++
	}
}

func jsonText(v interface{}) string {
	b, _ := json.Marshal(v)
	return string(b)
}

func (pr *proofRunner) run(n int, b []vtrace.Step) {
	for _, st := range b {
		m := pairsOf(st.In["m"])
		ps := pr.sut(m)
		if ps.broken != "" {
			vtrace.Broken("cannot build trie {" + mapKey(m) + "}: " + ps.broken)
			return
		}
		k := keyOf(st.In["k"])
		pr.cases++
		switch st.A {
		case "GetProof":
			expOk := st.Out["ok"].(bool)
			for fi, tr := range []data.Trie{ps.mem, ps.re} {
				form := []string{"in-memory", "recreated"}[fi]
				pf, ok, p := getProof(tr, k)
				if p != "" {
					pr.rep.report("C04", "C04/getproof-panics", fmt.Sprintf("GetProof(%x) on the %s trie {%s} panics: %s", k, form, mapKey(m), p), M{"case": st})
					continue
				}
				if expOk && !ok {
					pr.rep.report("C04", "C04/getproof-fails-for-stored-key", fmt.Sprintf("GetProof(%x) on the %s trie {%s} fails", k, form, mapKey(m)), M{"case": st})
					continue
				}
				if expOk && len(pf) != vtrace.Int(st.Out["len"]) && pr.rep.perSig["drift"] < 3 {
					pr.rep.perSig["drift"]++
					vtrace.Drift("C04", fmt.Sprintf("GetProof(%x) returns %d nodes, the specification's path has %d", k, len(pf), vtrace.Int(st.Out["len"])), M{"case": st})
				}
				// whatever GetProof returns is verified: a stored key's proof must verify, an absent key's never
				if ok {
					real, detail := verify(tr, k, pf)
					if expOk && real != "true" {
						pr.rep.report("C04", "C04/rejects-own-proof", fmt.Sprintf("GetProof(%x) of a stored key does not verify on the %s trie {%s}: %s %s", k, form, mapKey(m), real, detail), M{"case": st})
					}
					if !expOk && real == "true" {
						pr.rep.report("C04", "C04/accepts-absent-key", fmt.Sprintf("GetProof(%x) of an absent key returns a proof that verifies on the %s trie {%s}", k, form, mapKey(m)), M{"case": st})
					}
				}
			}
		case "Verify":
			pf, ok := assemble(ps, st.In["pf"])
			if !ok {
				vtrace.Broken(fmt.Sprintf("case %d: node reference outside the real proof (%v)", n, st.In["pf"]))
				return
			}
			for fi, tr := range []data.Trie{ps.mem, ps.re} {
				real, detail := verify(tr, k, pf)
				pr.judge(st, ps, []string{"in-memory", "recreated"}[fi], k, real, detail)
			}
			key := fmt.Sprint(st.In)
			pr.distinct.Add(key)
			if refs, isArr := st.In["pf"].([]interface{}); isArr && len(refs) > 0 {
				if vtrace.Int(refs[0].(map[string]interface{})["i"]) == 1 {
					pr.deep.Add(key)
				}
			}
			if pr.samples < 3 && st.Out["ideal"] == "true" || (pr.samples < 6 && st.Out["ideal"] != st.Out["code"]) {
				pr.samples++
				vtrace.Sample("C04", st)
			}
		}
	}
}

// mutate runs byte-level corruptions of real proofs (seeded): a corrupted node can never pass the hash
// check, so such a proof must not verify for an absent key and must not crash the verifier.
func (pr *proofRunner) mutate(rng *rand.Rand, probes [][]byte) int {
	n := 0
	mks := make([]string, 0, len(pr.cache))
	for mk := range pr.cache {
		mks = append(mks, mk)
	}
	sort.Strings(mks)
	for _, mk := range mks {
		ps := pr.cache[mk]
		if ps.broken != "" || len(ps.proofs) == 0 {
			continue
		}
		srcs := make([]string, 0, len(ps.proofs))
		for s := range ps.proofs {
			srcs = append(srcs, s)
		}
		sort.Strings(srcs)
		for rep := 0; rep < 12; rep++ {
			src := ps.proofs[srcs[rng.Intn(len(srcs))]]
			pf := make([][]byte, len(src))
			for i := range src {
				pf[i] = append([]byte{}, src[i]...)
			}
			j := rng.Intn(len(pf))
			kind := rng.Intn(7)
			switch kind {
			case 0:
				pf[j][rng.Intn(len(pf[j]))] ^= 1 << uint(rng.Intn(8))
			case 1:
				pf[j] = pf[j][:len(pf[j])-1] // drops the node-type byte
			case 2:
				pf[j] = append(pf[j], byte(rng.Intn(3)))
			case 3:
				pf[j] = []byte{}
			case 4:
				pf[j] = nil
			case 5:
				pf[j] = pf[j][:rng.Intn(len(pf[j]))]
			case 6:
				pf[j][len(pf[j])-1] = (pf[j][len(pf[j])-1] + 1 + byte(rng.Intn(3))) % 4 // another node type
			}
			if pf[j] != nil && bytes.Equal(pf[j], src[j]) {
				continue
			}
			k := probes[rng.Intn(len(probes))]
			_, present := ps.contents[string(k)]
			for fi, tr := range []data.Trie{ps.mem, ps.re} {
				real, detail := verify(tr, k, pf)
				n++
				form := []string{"in-memory", "recreated"}[fi]
				what := fmt.Sprintf("VerifyProof(key %x, corrupted proof: node %d mutation %d) on the %s trie {%s} = %s %s", k, j, kind, form, mk, real, detail)
				// a corrupted node cannot pass the hash check, so the walk behaves like the one over the
				// uncorrupted nodes before it; that truncated proof is one of the specification's cases and a
				// failure it already shows is reported there, not a second time here
				if trunc, _ := verify(tr, k, src[:j]); trunc == real {
					continue
				}
				if real == "panic" {
					pr.rep.report("C04", "C04/corrupted-proof/verify-panics", what, M{"contents": mk, "key": keyJSON(k), "node": j, "mutation": kind})
				} else if real == "true" && !present {
					pr.rep.report("C04", "C04/corrupted-proof/accepts-absent-key", what, M{"contents": mk, "key": keyJSON(k), "node": j, "mutation": kind})
				}
			}
		}
	}
	return n
}

func proofs(path string) {
	pr := &proofRunner{cache: map[string]*proofSut{}, rep: &reporter{perSig: map[string]int{}}, distinct: vtrace.NewDistinct(), deep: vtrace.NewDistinct()}
	f, err := os.Open(path)
	if err != nil {
		vtrace.Broken(err.Error())
		return
	}
	defer f.Close()
	r := bufio.NewReaderSize(f, 1<<20)
	n := 0
	probeSet := map[string]bool{}
	for {
		line, err := r.ReadBytes('\n')
		if len(line) > 1 {
			var b []vtrace.Step
			if e := json.Unmarshal(line, &b); e != nil {
				vtrace.Broken(fmt.Sprintf("case line %d: %v", n+1, e))
				return
			}
			for _, st := range b {
				probeSet[string(keyOf(st.In["k"]))] = true
			}
			if p := safely(func() { pr.run(n, b) }); p != "" {
				vtrace.Broken(fmt.Sprintf("harness panic in case %d: %s", n, p))
				return
			}
			n++
		}
		if err == io.EOF {
			break
		}
		if err != nil {
			vtrace.Broken(err.Error())
			return
		}
	}
	var probes [][]byte
	for k := range probeSet {
		probes = append(probes, []byte(k))
	}
	sort.Slice(probes, func(i, j int) bool { return bytes.Compare(probes[i], probes[j]) < 0 })
	seed, _ := json.Number(os.Getenv("VERIF_SEED")).Int64()
	mutated := 0
	if len(probes) > 0 {
		mutated = pr.mutate(rand.New(rand.NewSource(seed)), probes)
	}
	vtrace.Stat("cases", pr.cases)
	vtrace.Stat("tries", len(pr.cache))
	vtrace.Stat("distinct_cases", pr.distinct.Len())
	vtrace.Stat("distinct_past_root", pr.deep.Len())
	vtrace.Stat("corrupted", mutated)
	vtrace.Stat("violations", pr.rep.total)
}

// ---------------------------------------------------------------------------------------------------
// proofrec: random larger tries, probe keys derived from stored keys (one nibble changed inside / outside the part
// an extension skips, truncated, extended) and node sequences spliced from real proofs; logs the real verdicts.
// Trace_TrieProof.tla recomputes the trie at node level and decides.

func mutateKey(rng *rand.Rand, k []byte) []byte {
	r := append([]byte{}, k...)
	switch rng.Intn(6) {
	case 0:
		if len(r) > 0 {
			r[len(r)-1] ^= byte(1 << uint(rng.Intn(8))) // the last byte is the first part of the path
		}
	case 1:
		if len(r) > 0 {
			r[rng.Intn(len(r))] ^= byte(1 << uint(rng.Intn(8)))
		}
	case 2:
		if len(r) > 0 {
			r = r[1:]
		}
	case 3:
		if len(r) > 0 {
			r = r[:len(r)-1]
		}
	case 4:
		r = append([]byte{byte(rng.Intn(256))}, r...)
	case 5:
		r = []byte{}
	}
	return r
}

func proofrec(seed int64, tries int, out string) {
	w, err := vtrace.NewWriter(out)
	if err != nil {
		vtrace.Broken(err.Error())
		return
	}
	rng := rand.New(rand.NewSource(seed))
	cases := 0
	for t := 0; t < tries; t++ {
		pool := keyPool(rng, 4+rng.Intn(9), t%4 == 3)
		contents := map[string]int{}
		for _, k := range pool {
			if len(k) == 0 && rng.Intn(2) == 0 {
				continue // the empty key turns the root into a branch; keep root extensions frequent
			}
			contents[string(k)] = 1 + rng.Intn(3)
		}
		ps := buildProofSut(contents)
		if ps.broken != "" {
			vtrace.Broken(ps.broken)
			return
		}
		var stored [][]byte
		var pairs []interface{}
		for k, v := range contents {
			stored = append(stored, []byte(k))
			pairs = append(pairs, []interface{}{keyJSON([]byte(k)), v})
		}
		sort.Slice(stored, func(i, j int) bool { return bytes.Compare(stored[i], stored[j]) < 0 })
		for _, k := range stored {
			pf, ok, _ := getProof(ps.mem, k)
			if ok {
				ps.proofs[string(k)] = pf
			}
		}
		w.NewTraceWith("Trie", M{"m": pairs}, M{"x": 0}, M{})
		for c := 0; c < 40; c++ {
			// probe key
			var k []byte
			if rng.Intn(3) == 0 {
				k = stored[rng.Intn(len(stored))]
			} else {
				k = mutateKey(rng, stored[rng.Intn(len(stored))])
			}
			// own proof through the API
			if c%4 == 0 {
				pf, ok, p := getProof(ps.re, k)
				real, verdict := "none", ""
				if ok {
					verdict, _ = verify(ps.re, k, pf)
					real = verdict
				}
				if p != "" {
					real = "panic"
				}
				w.Emit("GetProof", M{"k": keyJSON(k)}, M{"ok": ok, "len": len(pf), "verdict": real}, M{})
				cases++
				continue
			}
			// spliced node sequence
			a := stored[rng.Intn(len(stored))]
			b := stored[rng.Intn(len(stored))]
			pa, pb := ps.proofs[string(a)], ps.proofs[string(b)]
			i := len(pa)
			if rng.Intn(2) == 0 {
				i = rng.Intn(len(pa) + 1)
			}
			j := len(pb)
			if i < len(pa) || rng.Intn(3) == 0 {
				j = rng.Intn(len(pb) + 1)
			}
			var refs []interface{}
			var pf [][]byte
			for x := 0; x < i; x++ {
				refs = append(refs, M{"s": keyJSON(a), "i": x + 1})
				pf = append(pf, pa[x])
			}
			for x := j; x < len(pb); x++ {
				refs = append(refs, M{"s": keyJSON(b), "i": x + 1})
				pf = append(pf, pb[x])
			}
			if refs == nil {
				refs = []interface{}{}
			}
			rm, _ := verify(ps.mem, k, pf)
			rr, _ := verify(ps.re, k, pf)
			w.Emit("Verify", M{"k": keyJSON(k), "pf": refs}, M{"mem": rm, "re": rr}, M{})
			cases++
		}
	}
	if err := w.Close(); err != nil {
		vtrace.Broken(err.Error())
	}
	vtrace.Stat("events", w.N)
	vtrace.Stat("cases", cases)
	vtrace.Stat("tries", tries)
}
