// vh-trie binds specs/Trie (node-level model of data/trie) to the real patriciaMerkleTrie.
//
//	vh-trie replay <behaviours.ndjson> <keys.json>     TLC behaviours (Trie.tla) -> real trie: C01 C02 C03
//	vh-trie record <seed> <traces> <len> <out>         random histories on the real trie -> trace for Trace_Trie
//	vh-trie proofs <cases.ndjson>                      TLC-enumerated (trie, key, proof) cases (TrieProof.tla) -> GetProof/VerifyProof: C04
//	vh-trie proofrec <seed> <tries> <out>              random tries/keys/proofs on the real code -> log for Trace_TrieProof
//
// No model logic lives here: expected values come from the TLC output; this program drives the real code,
// projects what it returns (values as small ints, root hashes as interned ids) and compares / logs.
package main

import (
	"bytes"
	"encoding/json"
	"fmt"
	"os"
	"sort"
	"strconv"
	"strings"

	"github.com/ElrondNetwork/elrond-go/data"
	"github.com/ElrondNetwork/elrond-go/data/trie"
	"github.com/ElrondNetwork/elrond-go/hashing/keccak"
	"github.com/ElrondNetwork/elrond-go/marshal"
	"github.com/ElrondNetwork/elrond-go/storage/memorydb"
	"verif/harness/internal/vtrace"
)

type M = vtrace.M

var (
	marsh  = &marshal.GogoProtoMarshalizer{}
	hasher = keccak.NewKeccak()
)

// newStorage creates the storage manager used by all tries of one behaviour (they share the DB).
func newStorage() data.StorageManager {
	tsm, err := trie.NewTrieStorageManagerWithoutPruning(memorydb.New())
	if err != nil {
		panic(err)
	}
	return tsm
}

func newTrieOn(tsm data.StorageManager, maxLevel int) data.Trie {
	tr, err := trie.NewTrie(tsm, marsh, hasher, uint(maxLevel))
	if err != nil {
		panic(err)
	}
	return tr
}

// valBytes is the concrete value for the abstract value v (0 = empty value): v bytes of value v,
// so that different abstract values also differ in length.
func valBytes(v int) []byte {
	if v == 0 {
		return []byte{}
	}
	return bytes.Repeat([]byte{byte(v)}, v)
}

// valAbs projects a concrete value back: 0 for empty/nil, v for valBytes(v), -1 for anything else.
func valAbs(b []byte) int {
	if len(b) == 0 {
		return 0
	}
	v := int(b[0])
	if len(b) != v {
		return -1
	}
	for _, x := range b {
		if int(x) != v {
			return -1
		}
	}
	return v
}

// keyOf reads a TLA+ byte sequence (JSON array of numbers) as a key.
func keyOf(v interface{}) []byte {
	if v == nil {
		return []byte{}
	}
	a, ok := v.([]interface{})
	if !ok {
		// TLC's Json module prints the empty sequence as [] but an empty function/record may come as {}
		if m, isMap := v.(map[string]interface{}); isMap && len(m) == 0 {
			return []byte{}
		}
		panic(fmt.Sprintf("keyOf: %T %v", v, v))
	}
	r := make([]byte, len(a))
	for i := range a {
		r[i] = byte(vtrace.Int(a[i]))
	}
	return r
}

func keyJSON(k []byte) []int {
	r := make([]int, len(k))
	for i := range k {
		r[i] = int(k[i])
	}
	return r
}

// pairsOf reads a TLA+ set of <<key, value>> pairs into a map keyed by string(key).
func pairsOf(v interface{}) map[string]int {
	res := map[string]int{}
	if v == nil {
		return res
	}
	a, ok := v.([]interface{})
	if !ok {
		if m, isMap := v.(map[string]interface{}); isMap && len(m) == 0 {
			return res
		}
		panic(fmt.Sprintf("pairsOf: %T %v", v, v))
	}
	for _, p := range a {
		pr := p.([]interface{})
		res[string(keyOf(pr[0]))] = vtrace.Int(pr[1])
	}
	return res
}

// mapKey is a canonical text of a contents map (used to compare partitions: equal contents <=> equal root hash).
func mapKey(m map[string]int) string {
	ks := make([]string, 0, len(m))
	for k := range m {
		ks = append(ks, k)
	}
	sort.Strings(ks)
	var sb strings.Builder
	for _, k := range ks {
		fmt.Fprintf(&sb, "%x=%d;", k, m[k])
	}
	return sb.String()
}

// leavesOf enumerates the leaves of a root through the public API.
func leavesOf(tr data.Trie, root []byte) (pairs [][2]string, err error) {
	ch, err := tr.GetAllLeavesOnChannel(root)
	if err != nil {
		return nil, err
	}
	for l := range ch {
		pairs = append(pairs, [2]string{string(l.Key()), string(l.Value())})
	}
	return pairs, nil
}

// safely runs f and converts a panic of the code under test into an error text.
func safely(f func()) (panicked string) {
	defer func() {
		if r := recover(); r != nil {
			panicked = fmt.Sprint(r)
		}
	}()
	f()
	return ""
}

func readJSONArg(s string, v interface{}) {
	if strings.HasPrefix(s, "@") {
		b, err := os.ReadFile(s[1:])
		if err != nil {
			panic(err)
		}
		s = string(b)
	}
	if err := json.Unmarshal([]byte(s), v); err != nil {
		panic(err)
	}
}

func atoi(s string) int {
	n, err := strconv.Atoi(s)
	if err != nil {
		panic(err)
	}
	return n
}

func main() {
	vtrace.Quiet()
	if len(os.Args) < 2 {
		fmt.Fprintln(os.Stderr, "usage: vh-trie replay|record|proofs|proofrec ...")
		os.Exit(2)
	}
	switch os.Args[1] {
	case "replay":
		replay(os.Args[2], os.Args[3])
	case "record":
		seed, _ := strconv.ParseInt(os.Args[2], 10, 64)
		record(seed, atoi(os.Args[3]), atoi(os.Args[4]), os.Args[5])
	case "proofs":
		proofs(os.Args[2])
	case "proofrec":
		seed, _ := strconv.ParseInt(os.Args[2], 10, 64)
		proofrec(seed, atoi(os.Args[3]), os.Args[4])
	default:
		os.Exit(2)
	}
}
