package main

import (
	"fmt"

	"github.com/ElrondNetwork/elrond-go/data"
	"github.com/ElrondNetwork/elrond-go/data/trie"
	"github.com/ElrondNetwork/elrond-go/hashing/keccak"
	"github.com/ElrondNetwork/elrond-go/marshal"
	"github.com/ElrondNetwork/elrond-go/storage/memorydb"
	"verif/harness/internal/vtrace"
)

func newTrie(maxLevel uint) data.Trie {
	tsm, err := trie.NewTrieStorageManagerWithoutPruning(memorydb.New())
	if err != nil {
		panic(err)
	}
	tr, err := trie.NewTrie(tsm, &marshal.GogoProtoMarshalizer{}, keccak.NewKeccak(), maxLevel)
	if err != nil {
		panic(err)
	}
	return tr
}

func main() {
	vtrace.Quiet()
	tr := newTrie(2)
	fmt.Println(tr.Update([]byte{}, []byte{1}))
	fmt.Println(tr.Update([]byte{0x22}, []byte{2}))
	fmt.Println(tr.Update([]byte{0x11, 0x22}, []byte{3}))
	fmt.Println(tr.Update([]byte{0x33, 0x22}, []byte{4}))
	for _, k := range [][]byte{{}, {0x22}, {0x11, 0x22}, {0x33, 0x22}, {0x11, 0x55}} {
		v, err := tr.Get(k)
		fmt.Println("get", k, v, err)
	}
	rh, err := tr.RootHash()
	fmt.Println(vtrace.Hex(rh), err)
	fmt.Println(tr.Commit())
	ch, err := tr.GetAllLeavesOnChannel(rh)
	fmt.Println(err)
	for l := range ch {
		fmt.Println("leaf", l.Key(), l.Value())
	}
	//
	fmt.Println(tr.String())
	t2, err := tr.Recreate(rh)
	fmt.Println(err)
	//
	pf, err := tr.GetProof([]byte{0x11, 0x22})
	fmt.Println(len(pf), err)
	func() {
		defer func() { fmt.Println("recovered", recover()) }()
		ok, err := t2.VerifyProof([]byte{0x11, 0x55}, pf)
		fmt.Println("verify 1155", ok, err)
		ok, err = t2.VerifyProof([]byte{}, pf)
		fmt.Println("verify empty", ok, err)
	}()
	dh, err := tr.GetDirtyHashes()
	fmt.Println(len(dh), err)
}
