package main

import (
	"bufio"
	"bytes"
	"encoding/json"
	"fmt"
	"io"
	"os"
	"sort"

	"github.com/ElrondNetwork/elrond-go/data"
	"github.com/ElrondNetwork/elrond-go/data/trie"
	"verif/harness/internal/vtrace"
)

// partition compares two equivalence relations over all observations of a run:
// "same contents" (the specification's map) and "same real root hash".  C02 says they coincide.
type partition struct {
	byMap  map[string]string // mapKey -> hex root hash
	byHash map[string]string // hex root hash -> mapKey
	where  map[string]string // mapKey -> short description of the first observation
}

func newPartition() *partition {
	return &partition{byMap: map[string]string{}, byHash: map[string]string{}, where: map[string]string{}}
}

// observe returns a non-empty signature suffix when the observation contradicts an earlier one.
func (p *partition) observe(mk string, hash []byte, where string) (sig, what string) {
	hx := vtrace.Hex(hash)
	if old, ok := p.byMap[mk]; ok && old != hx {
		return "same-contents-different-root", fmt.Sprintf("contents {%s} had root %s (%s) and now have root %s (%s)",
			mk, old, p.where[mk], hx, where)
	}
	if old, ok := p.byHash[hx]; ok && old != mk {
		return "different-contents-same-root", fmt.Sprintf("root %s was reported for contents {%s} (%s) and now for {%s} (%s)",
			hx, old, p.where[old], mk, where)
	}
	if _, ok := p.byMap[mk]; !ok {
		p.byMap[mk] = hx
		p.byHash[hx] = mk
		p.where[mk] = where
	}
	return "", ""
}

// reporter limits the number of reported violations per signature and in total.
type reporter struct {
	perSig map[string]int
	total  int
}

func (r *reporter) report(prop, sig, what string, detail interface{}) {
	r.perSig[prop+sig]++
	r.total++
	if r.perSig[prop+sig] > 2 || len(r.perSig) > 12 {
		return
	}
	vtrace.Violation(prop, sig, what, detail)
}

// one behaviour on the real trie
type sut struct {
	tsm       data.StorageManager
	tr        data.Trie
	maxLevel  int
	roots     map[string][]byte // contents (mapKey) -> real root hash of the commit that produced them
	rootOrder []string
	recreated bool // a Recreate happened earlier in this behaviour (failures are then also C03 failures)
	committed bool
	// original instance kept alive next to the one recreated from its own current root: C03 says further
	// updates on the recreated trie behave exactly as on the original, so both receive every later update
	shadow data.Trie
	// the other live instances (RecreateKeep parks the instance it was called on; Switch re-addresses the calls)
	parked []data.Trie
}

type replayer struct {
	part     *partition
	rep      *reporter
	universe [][]byte
	steps    int
	distinct *vtrace.Distinct
	deep     *vtrace.Distinct // behaviours that mutate after a Recreate / Commit
	drifts   int
	multi    int // behaviours with more than one live instance (run a second time with full reads after every step)
}

func (rp *replayer) fail(s *sut, b []vtrace.Step, si int, prop, sig, what string) {
	det := M{"behaviour": b[:si+1], "step": si, "maxLevel": s.maxLevel}
	rp.rep.report(prop, sig, what, det)
}

// failContents reports a wrong read: always a C01 failure; after a Recreate also a C03 failure
// (the recreated trie does not behave like the original).
func (rp *replayer) failContents(s *sut, b []vtrace.Step, si int, sig, what string) {
	rp.fail(s, b, si, "C01", "C01/"+sig, what)
	if s.recreated {
		rp.fail(s, b, si, "C03", "C03/after-recreate/"+sig, what)
	}
}

func classifyGet(exp, got int) string {
	switch {
	case got == exp:
		return ""
	case exp == 0:
		return "reads-absent-key"
	case got == 0:
		return "loses-key"
	default:
		return "reads-wrong-value"
	}
}

// get reads one key through the public API and projects the value.
func get(tr data.Trie, k []byte) (v int, errText string) {
	var val []byte
	var err error
	if p := safely(func() { val, err = tr.Get(k) }); p != "" {
		return -1, "panic: " + p
	}
	if err != nil {
		return -1, err.Error()
	}
	return valAbs(val), ""
}

func rootHash(tr data.Trie) (h []byte, errText string) {
	var err error
	if p := safely(func() { h, err = tr.RootHash() }); p != "" {
		return nil, "panic: " + p
	}
	if err != nil {
		return nil, err.Error()
	}
	return h, ""
}

// checkLeaves compares GetAllLeavesOnChannel(root) with the expected pairs: exactly those, each once.
func (rp *replayer) checkLeaves(s *sut, b []vtrace.Step, si int, tr data.Trie, root []byte, exp map[string]int, ctx string) {
	var pairs [][2]string
	var err error
	if p := safely(func() { pairs, err = leavesOf(tr, root) }); p != "" {
		rp.fail(s, b, si, "C01", "C01/leaves/panic", ctx+": GetAllLeavesOnChannel panicked: "+p)
		return
	}
	if err != nil {
		rp.fail(s, b, si, "C01", "C01/leaves/error", ctx+": GetAllLeavesOnChannel: "+err.Error())
		rp.fail(s, b, si, "C03", "C03/leaves-of-committed-root/error", ctx+": GetAllLeavesOnChannel: "+err.Error())
		return
	}
	seen := map[string]int{}
	for _, p := range pairs {
		seen[p[0]]++
		v, ok := exp[p[0]]
		if !ok {
			rp.fail(s, b, si, "C01", "C01/leaves/extra-or-wrong-key", fmt.Sprintf("%s: leaf with key %x value %x is not a live pair of {%s}", ctx, p[0], p[1], mapKey(exp)))
			return
		}
		if valAbs([]byte(p[1])) != v {
			rp.fail(s, b, si, "C01", "C01/leaves/wrong-value", fmt.Sprintf("%s: leaf %x has value %x, expected %d", ctx, p[0], p[1], v))
			return
		}
	}
	for k, n := range seen {
		if n > 1 {
			rp.fail(s, b, si, "C01", "C01/leaves/duplicate", fmt.Sprintf("%s: leaf %x enumerated %d times", ctx, k, n))
			return
		}
	}
	for k := range exp {
		if seen[k] == 0 {
			rp.fail(s, b, si, "C01", "C01/leaves/missing", fmt.Sprintf("%s: live key %x is not enumerated (contents {%s})", ctx, k, mapKey(exp)))
			return
		}
	}
}

func (rp *replayer) observeRoot(s *sut, b []vtrace.Step, si int, h []byte, m map[string]int, where string) {
	mk := mapKey(m)
	if len(m) == 0 && !bytes.Equal(h, trie.EmptyTrieHash) {
		rp.fail(s, b, si, "C02", "C02/empty-trie-hash", fmt.Sprintf("%s: empty contents but root hash %x", where, h))
		return
	}
	if len(m) != 0 && bytes.Equal(h, trie.EmptyTrieHash) {
		rp.fail(s, b, si, "C02", "C02/empty-hash-for-non-empty-trie", fmt.Sprintf("%s: contents {%s} but the empty-trie hash", where, mk))
		return
	}
	if sig, what := rp.part.observe(mk, h, fmt.Sprintf("maxLevel %d, %s", s.maxLevel, where)); sig != "" {
		rp.fail(s, b, si, "C02", "C02/"+sig, what)
	}
}

// reopen recreates a trie from a committed root and compares contents, root hash and leaves.
func (rp *replayer) reopen(s *sut, b []vtrace.Step, si int, root []byte, exp map[string]int, ctx string, via data.Trie) data.Trie {
	var t2 data.Trie
	var err error
	if p := safely(func() { t2, err = via.Recreate(root) }); p != "" {
		rp.fail(s, b, si, "C03", "C03/recreate/panic", ctx+": Recreate panicked: "+p)
		return nil
	}
	if err != nil || t2 == nil {
		rp.fail(s, b, si, "C03", "C03/recreate/fails", fmt.Sprintf("%s: Recreate(%x) of a committed root fails: %v", ctx, root, err))
		return nil
	}
	h, e := rootHash(t2)
	if e != "" || !bytes.Equal(h, root) {
		if !(len(exp) == 0 && bytes.Equal(h, trie.EmptyTrieHash)) {
			rp.fail(s, b, si, "C03", "C03/recreate/root-differs", fmt.Sprintf("%s: recreated from %x but RootHash is %x %s", ctx, root, h, e))
		}
	}
	return t2
}

func (rp *replayer) compareAll(s *sut, b []vtrace.Step, si int, tr data.Trie, exp map[string]int, prop, sigPrefix, ctx string) bool {
	for _, k := range rp.universe {
		got, e := get(tr, k)
		if e != "" {
			rp.fail(s, b, si, prop, sigPrefix+"/get-error", fmt.Sprintf("%s: Get(%x): %s", ctx, k, e))
			return false
		}
		if c := classifyGet(exp[string(k)], got); c != "" {
			rp.fail(s, b, si, prop, sigPrefix+"/"+c, fmt.Sprintf("%s: Get(%x) = %d, the specification's map has %d (contents {%s})", ctx, k, got, exp[string(k)], mapKey(exp)))
			return false
		}
	}
	return true
}

// parkedMaps reads the specification's contents of the other live instances (st.parked: sequence of pair sets)
func parkedMaps(v interface{}) []map[string]int {
	a, ok := v.([]interface{})
	if !ok {
		return nil
	}
	res := make([]map[string]int, len(a))
	for i := range a {
		res[i] = pairsOf(a[i])
	}
	return res
}

// auditInstances compares every live instance that is NOT currently addressed with the specification's map of
// that instance: all keys (universe + never-written probes) and the root hash.  C03: instances are independent
// views of the shared storage; what happened to another instance must not show here.
func (rp *replayer) auditInstances(s *sut, b []vtrace.Step, si int, when string) bool {
	exp := parkedMaps(b[si].St["parked"])
	if len(exp) != len(s.parked) {
		vtrace.Broken(fmt.Sprintf("step %d: specification has %d other instances, harness %d", si, len(exp), len(s.parked)))
		return false
	}
	for j, tr := range s.parked {
		ctx := fmt.Sprintf("%s: live instance %d (not addressed by this step)", when, j+1)
		if !rp.compareAll(s, b, si, tr, exp[j], "C03", "C03/instances/contents-changed-by-another-instance", ctx) {
			return false
		}
		h, e := rootHash(tr)
		if e != "" {
			rp.fail(s, b, si, "C03", "C03/instances/roothash-error", ctx+": RootHash: "+e)
			return false
		}
		mk := mapKey(exp[j])
		if len(exp[j]) == 0 {
			if !bytes.Equal(h, trie.EmptyTrieHash) {
				rp.fail(s, b, si, "C03", "C03/instances/root-changed-by-another-instance", fmt.Sprintf("%s: empty contents but root %x", ctx, h))
				return false
			}
			continue
		}
		if want, ok := rp.part.byMap[mk]; ok && want != vtrace.Hex(h) {
			rp.fail(s, b, si, "C03", "C03/instances/root-changed-by-another-instance",
				fmt.Sprintf("%s: contents {%s} have root %s everywhere else in this run, this instance now reports %x", ctx, mk, want, h))
			return false
		}
		if root, ok := s.roots[mk]; ok && !bytes.Equal(root, h) {
			rp.fail(s, b, si, "C03", "C03/instances/root-changed-by-another-instance",
				fmt.Sprintf("%s: contents {%s} were committed with root %x, this instance now reports %x", ctx, mk, root, h))
			return false
		}
		rp.observeRoot(s, b, si, h, exp[j], ctx)
	}
	return true
}

func (rp *replayer) drift(what string, b []vtrace.Step) {
	rp.drifts++
	if rp.drifts <= 3 {
		for _, prop := range []string{"C01", "C02", "C03"} {
			vtrace.Drift(prop, what, M{"behaviour": b})
		}
	}
}

// run executes one behaviour.  heavy = additionally read every live instance completely after every step (the reads
// resolve collapsed nodes in memory, so the plain pass, which keeps the in-memory state the specification
// describes, is always run as well).  Returns whether the behaviour ever had more than one live instance.
func (rp *replayer) run(bi int, b []vtrace.Step, heavy bool) (multi bool) {
	s := &sut{roots: map[string][]byte{}}
	// the last record of an exported behaviour says what an inspection of the final state must find
	var audit *vtrace.Step
	if n := len(b); n > 0 && b[n-1].A == "Audit" {
		audit = &b[n-1]
		b = b[:n-1]
	}
	mutatedAfterReopen := false
	for si, st := range b {
		if heavy && si > 0 && b[si-1].A != "New" {
			// full read of every instance after the previous step (expected values: that step's `st`)
			prev := si - 1
			if !rp.compareAll(s, b, prev, s.tr, pairsOf(b[prev].St["m"]), "C03", "C03/instances/addressed-instance-differs", fmt.Sprintf("after step %d", prev)) {
				return
			}
			if !rp.auditInstances(s, b, prev, fmt.Sprintf("after step %d (%s)", prev, b[prev].A)) {
				return
			}
		}
		if st.A == "New" {
			s.maxLevel = vtrace.Int(st.In["maxLevel"])
			s.tsm = newStorage()
			s.tr = newTrieOn(s.tsm, s.maxLevel)
			continue
		}
		rp.steps++
		expMap := pairsOf(st.St["m"])
		switch st.A {
		case "Update", "Delete":
			k := keyOf(st.In["k"])
			var err error
			var p string
			if st.A == "Update" {
				v := valBytes(vtrace.Int(st.In["v"]))
				p = safely(func() { err = s.tr.Update(k, v) })
			} else {
				p = safely(func() { err = s.tr.Delete(k) })
			}
			if p != "" || err != nil {
				rp.failContents(s, b, si, "update-error", fmt.Sprintf("%s(%x) on the real trie: err=%v panic=%q", st.A, k, err, p))
				return
			}
			if s.shadow != nil {
				if st.A == "Update" {
					v := valBytes(vtrace.Int(st.In["v"]))
					p = safely(func() { err = s.shadow.Update(k, v) })
				} else {
					p = safely(func() { err = s.shadow.Delete(k) })
				}
				if p != "" || err != nil {
					rp.fail(s, b, si, "C03", "C03/original-vs-recreated/update-error", fmt.Sprintf("%s(%x) fails on the original instance but not on the recreated one: err=%v panic=%q", st.A, k, err, p))
					return
				}
			}
			if s.recreated || s.committed {
				mutatedAfterReopen = true
			}
		case "Get":
			k := keyOf(st.In["k"])
			got, e := get(s.tr, k)
			exp := vtrace.Int(st.Out["v"])
			if e != "" {
				rp.failContents(s, b, si, "get-error", fmt.Sprintf("Get(%x): %s", k, e))
				return
			}
			if c := classifyGet(exp, got); c != "" {
				rp.failContents(s, b, si, "get/"+c, fmt.Sprintf("Get(%x) = %d, the specification's map has %d", k, got, exp))
				return
			}
		case "RootHash":
			h, e := rootHash(s.tr)
			if e != "" {
				rp.fail(s, b, si, "C02", "C02/roothash-error", "RootHash: "+e)
				return
			}
			rp.observeRoot(s, b, si, h, expMap, fmt.Sprintf("behaviour %d step %d RootHash", bi, si))
		case "GetDirtyHashes":
			var dh map[string]struct{}
			var err error
			if p := safely(func() { dh, err = s.tr.GetDirtyHashes() }); p != "" || err != nil {
				rp.fail(s, b, si, "C03", "C03/getdirtyhashes-error", fmt.Sprintf("GetDirtyHashes: err=%v panic=%q", err, p))
				return
			}
			if len(dh) != vtrace.Int(st.Out["n"]) {
				rp.drift(fmt.Sprintf("behaviour %d step %d: GetDirtyHashes reports %d hashes, the specification %d (bookkeeping detail, not part of C01-C03)", bi, si, len(dh), vtrace.Int(st.Out["n"])), b[:si+1])
			}
		case "Commit":
			var err error
			if p := safely(func() { err = s.tr.Commit() }); p != "" || err != nil {
				rp.fail(s, b, si, "C03", "C03/commit-error", fmt.Sprintf("Commit: err=%v panic=%q", err, p))
				return
			}
			h, e := rootHash(s.tr)
			if e != "" {
				rp.fail(s, b, si, "C02", "C02/roothash-error", "RootHash after Commit: "+e)
				return
			}
			rp.observeRoot(s, b, si, h, expMap, fmt.Sprintf("behaviour %d step %d Commit", bi, si))
			mk := mapKey(expMap)
			if _, ok := s.roots[mk]; !ok {
				s.rootOrder = append(s.rootOrder, mk)
			}
			s.roots[mk] = h
			s.committed = true
			// enumerating the leaves of the committed root (expected set and count come from the specification)
			expLeaves := pairsOf(st.Out["leaves"])
			if len(expLeaves) != vtrace.Int(st.Out["nleaves"]) {
				vtrace.Broken("specification predicts duplicate leaves")
			}
			rp.checkLeaves(s, b, si, s.tr, h, expLeaves, "after Commit")
		case "Recreate":
			m := pairsOf(st.In["m"])
			root, ok := s.roots[mapKey(m)]
			if len(m) == 0 {
				root, ok = trie.EmptyTrieHash, true
			}
			if !ok {
				vtrace.Broken(fmt.Sprintf("behaviour %d step %d: Recreate of contents never committed", bi, si))
				return
			}
			t2 := rp.reopen(s, b, si, root, m, "Recreate", s.tr)
			if t2 == nil {
				return
			}
			s.shadow = nil
			if si > 0 && len(m) > 0 && mapKey(pairsOf(b[si-1].St["m"])) == mapKey(m) {
				s.shadow = s.tr // recreated from the current contents: the original lives on
			}
			s.tr = t2
			s.recreated = true
		case "RecreateKeep":
			m := pairsOf(st.In["m"])
			root, ok := s.roots[mapKey(m)]
			if !ok {
				vtrace.Broken(fmt.Sprintf("behaviour %d step %d: RecreateKeep of contents never committed", bi, si))
				return
			}
			t2 := rp.reopen(s, b, si, root, m, "Recreate (original stays in use)", s.tr)
			if t2 == nil {
				return
			}
			s.parked = append(s.parked, s.tr)
			s.tr = t2
			s.shadow = nil
			s.recreated = true
			multi = true
		case "Switch":
			i := vtrace.Int(st.In["i"]) - 1
			if i < 0 || i >= len(s.parked) {
				vtrace.Broken(fmt.Sprintf("behaviour %d step %d: Switch to a missing instance", bi, si))
				return
			}
			s.tr, s.parked[i] = s.parked[i], s.tr
			s.shadow = nil
		default:
			vtrace.Broken("unknown action " + st.A)
			return
		}
		// cheap check after every step in every pass: the root hash of the instances not addressed
		if len(s.parked) > 0 && !heavy {
			for j, tr := range s.parked {
				exp := parkedMaps(st.St["parked"])
				if j >= len(exp) {
					break
				}
				if root, ok := s.roots[mapKey(exp[j])]; ok {
					if h, e := rootHash(tr); e != "" || !bytes.Equal(h, root) {
						rp.fail(s, b, si, "C03", "C03/instances/root-changed-by-another-instance",
							fmt.Sprintf("after step %d (%s): live instance %d holds contents {%s} committed with root %x but reports %x %s", si, st.A, j+1, mapKey(exp[j]), root, h, e))
						return
					}
				}
			}
		}
	}
	// ---- audit of the final state (expected values: the `st.m` of the last record)
	last := len(b) - 1
	if last < 1 {
		return
	}
	exp := pairsOf(b[last].St["m"])
	ok := true
	for _, k := range rp.universe {
		got, e := get(s.tr, k)
		if e != "" {
			rp.failContents(s, b, last, "get-error", fmt.Sprintf("final audit: Get(%x): %s", k, e))
			ok = false
			break
		}
		if c := classifyGet(exp[string(k)], got); c != "" {
			rp.failContents(s, b, last, "get/"+c, fmt.Sprintf("final audit: Get(%x) = %d, the specification's map has %d (contents {%s})", k, got, exp[string(k)], mapKey(exp)))
			ok = false
			break
		}
	}
	if !ok {
		return
	}
	if len(s.parked) > 0 && !rp.auditInstances(s, b, last, "final audit") {
		return
	}
	h1, e := rootHash(s.tr)
	if e != "" {
		rp.fail(s, b, last, "C02", "C02/roothash-error", "final audit RootHash: "+e)
		return
	}
	if s.shadow != nil {
		for _, k := range rp.universe {
			g1, _ := get(s.tr, k)
			g2, e2 := get(s.shadow, k)
			if g1 != g2 {
				rp.fail(s, b, last, "C03", "C03/original-vs-recreated/contents-differ", fmt.Sprintf("after the same updates Get(%x) = %d on the recreated instance and %d %s on the original", k, g1, g2, e2))
				return
			}
		}
		if hs, es := rootHash(s.shadow); es != "" || !bytes.Equal(hs, h1) {
			rp.fail(s, b, last, "C03", "C03/original-vs-recreated/root-differs", fmt.Sprintf("after the same updates the recreated instance has root %x, the original %x %s", h1, hs, es))
			return
		}
	}
	rp.observeRoot(s, b, last, h1, exp, fmt.Sprintf("behaviour %d final state", bi))
	var err error
	var dirty map[string]struct{}
	if p := safely(func() { dirty, err = s.tr.GetDirtyHashes() }); p != "" || err != nil {
		rp.fail(s, b, last, "C03", "C03/getdirtyhashes-error", fmt.Sprintf("final audit GetDirtyHashes: err=%v panic=%q", err, p))
		return
	}
	if audit != nil && len(dirty) != vtrace.Int(audit.Out["dirty"]) {
		rp.drift(fmt.Sprintf("behaviour %d final state: GetDirtyHashes reports %d hashes, the specification %d (bookkeeping detail, not part of C01-C03)", bi, len(dirty), vtrace.Int(audit.Out["dirty"])), b)
	}
	if p := safely(func() { err = s.tr.Commit() }); p != "" || err != nil {
		rp.fail(s, b, last, "C03", "C03/commit-error", fmt.Sprintf("final audit Commit: err=%v panic=%q", err, p))
		return
	}
	// what was dirty before the Commit is in the DB after it
	for h := range dirty {
		if _, gerr := s.tsm.Database().Get([]byte(h)); gerr != nil {
			rp.fail(s, b, last, "C03", "C03/commit/dirty-node-not-written", fmt.Sprintf("final audit: node %x was reported dirty before Commit and is not in the DB after it", h))
			return
		}
	}
	h2, e := rootHash(s.tr)
	if e != "" || !bytes.Equal(h1, h2) {
		rp.fail(s, b, last, "C02", "C02/commit-changes-root", fmt.Sprintf("root hash %x before Commit, %x after (%s)", h1, h2, e))
		return
	}
	if len(exp) > 0 {
		mk := mapKey(exp)
		if _, seen := s.roots[mk]; !seen {
			s.rootOrder = append(s.rootOrder, mk)
		}
		s.roots[mk] = h2
	}
	rp.checkLeaves(s, b, last, s.tr, h2, exp, "final audit")
	// a Commit of the addressed instance changes nothing in the others
	if len(s.parked) > 0 && !rp.auditInstances(s, b, last, "final audit after Commit of the addressed instance") {
		return
	}
	// the trie still answers after the commit (collapse at maxLevel)
	if !rp.compareAll(s, b, last, s.tr, exp, "C03", "C03/after-commit", "final audit after Commit") {
		return
	}
	// number of nodes of the trie (binds the specification's node-level shape; a difference is drift, not a verdict)
	if audit != nil {
		var all [][]byte
		if p := safely(func() { all, err = s.tr.GetAllHashes() }); p != "" || err != nil {
			rp.fail(s, b, last, "C03", "C03/getallhashes-error", fmt.Sprintf("final audit GetAllHashes after Commit: err=%v panic=%q", err, p))
			return
		}
		if len(all) != vtrace.Int(audit.Out["nodes"]) {
			rp.drift(fmt.Sprintf("behaviour %d final state: GetAllHashes returns %d hashes, the specification's trie has %d nodes (shape detail; C02 compares root hashes)", bi, len(all), vtrace.Int(audit.Out["nodes"])), b)
		}
	}
	// every root committed in this behaviour is recreatable, from a trie with another maxTrieLevelInMemory as well
	other := newTrieOn(s.tsm, s.maxLevel%3+1)
	for _, mk := range s.rootOrder {
		root := s.roots[mk]
		var m map[string]int
		for _, st := range b { // contents of that commit as the specification recorded them
			if c := pairsOf(st.St["m"]); mapKey(c) == mk {
				m = c
				break
			}
		}
		if m == nil {
			continue
		}
		for vi, via := range []data.Trie{s.tr, other} {
			ctx := fmt.Sprintf("final audit: root %x of contents {%s} (via trie %d)", root, mk, vi)
			t2 := rp.reopen(s, b, last, root, m, ctx, via)
			if t2 == nil {
				return
			}
			if !rp.compareAll(s, b, last, t2, m, "C03", "C03/recreate/contents-differ", ctx) {
				return
			}
			h3, e := rootHash(t2)
			if e == "" {
				rp.observeRoot(s, b, last, h3, m, ctx)
			}
			if vi == 1 {
				rp.checkLeaves(s, b, last, t2, root, m, ctx)
			}
		}
	}
	if len(b) > 1 {
		l := b[last]
		rp.distinct.Add(fmt.Sprint(b[last-1].St, l.A, l.In, b[0].In))
		if mutatedAfterReopen {
			rp.deep.Add(fmt.Sprint(b[last-1].St, l.A, l.In, b[0].In))
		}
	}
	return multi
}

func replay(path, keysArg string) {
	var ks [][]int
	readJSONArg(keysArg, &ks)
	rp := &replayer{part: newPartition(), rep: &reporter{perSig: map[string]int{}}, distinct: vtrace.NewDistinct(), deep: vtrace.NewDistinct()}
	for _, k := range ks {
		kb := make([]byte, len(k))
		for i := range k {
			kb[i] = byte(k[i])
		}
		rp.universe = append(rp.universe, kb)
	}
	sort.Slice(rp.universe, func(i, j int) bool { return bytes.Compare(rp.universe[i], rp.universe[j]) < 0 })
	f, err := os.Open(path)
	if err != nil {
		vtrace.Broken(err.Error())
		return
	}
	defer f.Close()
	r := bufio.NewReaderSize(f, 1<<20)
	n := 0
	for {
		line, err := r.ReadBytes('\n')
		if len(line) > 1 {
			var b []vtrace.Step
			if e := json.Unmarshal(line, &b); e != nil {
				vtrace.Broken(fmt.Sprintf("behaviour line %d: %v", n+1, e))
				return
			}
			multi := false
			if p := safely(func() { multi = rp.run(n, b, false) }); p != "" {
				vtrace.Broken(fmt.Sprintf("harness panic in behaviour %d: %s", n, p))
				return
			}
			if multi {
				rp.multi++
			}
			if p := safely(func() {
				if multi {
					rp.run(n, b, true)
				}
			}); p != "" {
				vtrace.Broken(fmt.Sprintf("harness panic in behaviour %d: %s", n, p))
				return
			}
			if n < 3 || (n%1000 == 0 && n < 3001) {
				for _, prop := range []string{"C01", "C02", "C03"} {
					vtrace.Sample(prop, b)
				}
			}
			n++
		}
		if err == io.EOF {
			break
		}
		if err != nil {
			vtrace.Broken(err.Error())
			return
		}
	}
	vtrace.Stat("behaviours", n)
	vtrace.Stat("steps", rp.steps)
	vtrace.Stat("distinct_transitions", rp.distinct.Len())
	vtrace.Stat("distinct_after_reopen", rp.deep.Len())
	vtrace.Stat("distinct_contents", len(rp.part.byMap))
	vtrace.Stat("violations", rp.rep.total)
	vtrace.Stat("drifts", rp.drifts)
	vtrace.Stat("multi_instance_behaviours", rp.multi)
}
