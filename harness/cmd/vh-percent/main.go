// vh-percent binds specs/Percent to the real core.GetIntTrimmedPercentageOfValue /
// core.GetApproximatePercentageOfValue and to the rewards split of a REAL delegation contract
// (created through the real delegation manager on a real vmContext, harness/families/sysvm).
//
//	vh-percent record <seed> <calls> <contracts> <out>
//	    seeded random (amount, percentage) pairs -- amounts from 0 to 10^30, percentages 0, 1, short decimals,
//	    1e-7-style long fractions, random float64 values whose shortest decimal has 16-17 digits -- are given to the
//	    real functions and logged with the decimal digits strconv.FormatFloat(p,'f',-1,64) yields (the digits the
//	    specification takes as p); delegation contracts with random stakes, service fees and epoch rewards are run
//	    and every delegator's claim is logged.  Numbers are logged as little-endian base-10000 limbs.
//	    Supplementary (clearly not the specification): the floor identity r*10^k <= v*num < (r+1)*10^k is also
//	    evaluated with math/big on every record.
//	vh-percent replay <behaviours.ndjson>
//	    TLC-enumerated small inputs with the specification's result evaluated on the real function.
package main

import (
	"bytes"
	"fmt"
	"math"
	"math/big"
	"math/rand"
	"os"
	"strconv"
	"strings"

	"github.com/ElrondNetwork/elrond-go/config"
	"github.com/ElrondNetwork/elrond-go/core"
	"github.com/ElrondNetwork/elrond-go/marshal"
	"github.com/ElrondNetwork/elrond-go/vm"
	"github.com/ElrondNetwork/elrond-go/vm/mock"
	"github.com/ElrondNetwork/elrond-go/vm/systemSmartContracts"
	vmcommon "github.com/ElrondNetwork/elrond-vm-common"
	"verif/harness/families/sysvm"
	"verif/harness/internal/vtrace"
)

type M = vtrace.M

const prop = "C36"

var marsh = &marshal.GogoProtoMarshalizer{}

// limbs writes a natural as little-endian base-10000 limbs (0 = empty)
func limbs(x *big.Int) []int {
	r := []int{}
	if x.Sign() < 0 {
		panic("negative number cannot be logged")
	}
	t := new(big.Int).Set(x)
	b := big.NewInt(10000)
	m := new(big.Int)
	for t.Sign() > 0 {
		t.DivMod(t, b, m)
		r = append(r, int(m.Int64()))
	}
	return r
}

func fromLimbs(v interface{}) *big.Int {
	r := new(big.Int)
	a := vtrace.Ints(v)
	for i := len(a) - 1; i >= 0; i-- {
		r.Mul(r, big.NewInt(10000))
		r.Add(r, big.NewInt(int64(a[i])))
	}
	return r
}

// decimal returns the digits of the shortest decimal that reads back as p: p = num / 10^k
func decimal(p float64) (*big.Int, int) {
	s := strconv.FormatFloat(p, 'f', -1, 64)
	k := 0
	if i := strings.IndexByte(s, '.'); i >= 0 {
		k = len(s) - i - 1
		s = s[:i] + s[i+1:]
	}
	num, ok := new(big.Int).SetString(s, 10)
	if !ok {
		panic("not a decimal: " + s)
	}
	return num, k
}

func pow10(k int) *big.Int { return new(big.Int).Exp(big.NewInt(10), big.NewInt(int64(k)), nil) }

func randomAmount(rng *rand.Rand) *big.Int {
	switch rng.Intn(10) {
	case 0:
		return big.NewInt(int64(rng.Intn(3)))
	case 1:
		return big.NewInt(int64(rng.Intn(100000)))
	case 2:
		return new(big.Int).Sub(pow10(1+rng.Intn(30)), big.NewInt(int64(rng.Intn(2))))
	case 3, 4: // around total supply / yearly inflation scale
		x := new(big.Int).Mul(big.NewInt(rng.Int63n(20000000)+1), pow10(18))
		return x.Add(x, big.NewInt(rng.Int63()))
	case 5:
		return new(big.Int).Rand(rng, pow10(30))
	default:
		return new(big.Int).Rand(rng, pow10(1+rng.Intn(24)))
	}
}

func randomPercentage(rng *rand.Rand) float64 {
	special := []float64{0, 1, 0.5, 0.1, 0.2, 0.1 + 0.2, 0.3, 1e-7, 3e-7, 1.0 / 3, 2.0 / 3, 0.9999999999999999, 0.99,
		0.0866, 0.1084513, 0.25, 0.01, 1e-18, 0.7, 0.07, 1 - 1e-10, 0.5000000000000001, 1e-5, 0.000001234}
	switch rng.Intn(6) {
	case 0, 1:
		return special[rng.Intn(len(special))]
	case 2:
		return float64(rng.Intn(10001)) / 10000
	case 3:
		return float64(rng.Intn(1000)) / float64(1+rng.Intn(1000)+999) // ratio of integers <= 1
	case 4:
		return rng.Float64() * math.Pow(10, -float64(rng.Intn(12)))
	default:
		return rng.Float64()
	}
}

type delegationSut struct {
	w    *sysvm.World
	addr []byte
}

type epochHandler interface {
	EpochConfirmed(epoch uint32, timestamp uint64)
}

func pad(s string, n int) []byte {
	b := bytes.Repeat([]byte{'.'}, n)
	copy(b, s)
	return b
}
func user(i int) []byte { return pad(fmt.Sprintf("user-%d", i), 32) }
func must(err error) {
	if err != nil {
		panic(err)
	}
}
func nbytes(n int64) []byte { return big.NewInt(n).Bytes() }

// newDelegation deploys one delegation contract through the real manager; the owner (user 0) stakes v0
func newDelegation(maxFee uint64, fee int64, v0 int64) *delegationSut {
	w, err := sysvm.NewWorld()
	must(err)
	w.Epoch, w.Nonce, w.Round = 1, 100, 100
	const never = uint32(1000000)
	stakingCfg := config.StakingSystemSCConfig{
		GenesisNodePrice: "1000000000", MinStakeValue: "1000000000", UnJailValue: "1", MinStepValue: "1", UnBondPeriod: 1,
		UnBondPeriodInEpochs: 1, MaxNumberOfNodesForStake: 10, MinUnstakeTokensValue: "1",
	}
	epochs := config.EpochConfig{EnableEpochs: config.EnableEpochs{
		UnbondTokensV2EnableEpoch: never, ReDelegateBelowMinCheckEnableEpoch: never, ValidatorToDelegationEnableEpoch: never,
	}}
	delCfg := config.DelegationSystemSCConfig{MinServiceFee: 0, MaxServiceFee: maxFee}
	mgrCfg := config.DelegationManagerSystemSCConfig{MinCreationDeposit: "0", MinStakeAmount: "1", ConfigChangeAddress: "x"}
	notifier := &mock.EpochNotifierStub{}
	staking, err := systemSmartContracts.NewStakingSmartContract(systemSmartContracts.ArgsNewStakingSmartContract{
		Eei: w.Eei, StakingAccessAddr: vm.ValidatorSCAddress, JailAccessAddr: vm.JailingAddress,
		EndOfEpochAccessAddr: vm.EndOfEpochAddress, MinNumNodes: 1, Marshalizer: marsh,
		StakingSCConfig: stakingCfg, EpochNotifier: notifier, EpochConfig: epochs,
	})
	must(err)
	validator, err := systemSmartContracts.NewValidatorSmartContract(systemSmartContracts.ArgsValidatorSmartContract{
		StakingSCConfig: stakingCfg, GenesisTotalSupply: new(big.Int).Exp(big.NewInt(10), big.NewInt(30), nil), Eei: w.Eei,
		SigVerifier: &mock.MessageSignVerifierMock{}, StakingSCAddress: vm.StakingSCAddress,
		ValidatorSCAddress: vm.ValidatorSCAddress, Marshalizer: marsh, EpochNotifier: notifier,
		EndOfEpochAddress: vm.EndOfEpochAddress, MinDeposit: "0", DelegationMgrSCAddress: vm.DelegationManagerSCAddress,
		GovernanceSCAddress: vm.GovernanceSCAddress, DelegationMgrEnableEpoch: 0, EpochConfig: epochs,
		ShardCoordinator: &mock.ShardCoordinatorStub{},
	})
	must(err)
	mgr, err := systemSmartContracts.NewDelegationManagerSystemSC(systemSmartContracts.ArgsNewDelegationManager{
		DelegationMgrSCConfig: mgrCfg, DelegationSCConfig: delCfg, EpochConfig: epochs, Eei: w.Eei,
		DelegationMgrSCAddress: vm.DelegationManagerSCAddress, StakingSCAddress: vm.StakingSCAddress,
		ValidatorSCAddress: vm.ValidatorSCAddress, ConfigChangeAddress: pad("config-change", 32),
		Marshalizer: marsh, EpochNotifier: notifier,
	})
	must(err)
	del, err := systemSmartContracts.NewDelegationSystemSC(systemSmartContracts.ArgsNewDelegation{
		DelegationSCConfig: delCfg, EpochConfig: epochs, StakingSCConfig: stakingCfg, Eei: w.Eei,
		SigVerifier: &mock.MessageSignVerifierMock{}, DelegationMgrSCAddress: vm.DelegationManagerSCAddress,
		StakingSCAddress: vm.StakingSCAddress, ValidatorSCAddress: vm.ValidatorSCAddress,
		EndOfEpochAddress: vm.EndOfEpochAddress, GovernanceSCAddress: vm.GovernanceSCAddress,
		Marshalizer: marsh, EpochNotifier: notifier,
	})
	must(err)
	for _, h := range []epochHandler{staking, validator, mgr, del} {
		h.EpochConfirmed(w.Epoch, 0)
	}
	must(w.Container.Add(vm.StakingSCAddress, staking))
	must(w.Container.Add(vm.ValidatorSCAddress, validator))
	must(w.Container.Add(vm.DelegationManagerSCAddress, mgr))
	must(w.Container.Add(vm.FirstDelegationSCAddress, del))
	genesis := pad("genesis", 32)
	for _, a := range [][]byte{vm.StakingSCAddress, vm.ValidatorSCAddress, vm.DelegationManagerSCAddress} {
		if rc := w.Init(a, genesis, nil); rc != vmcommon.Ok {
			panic("init failed")
		}
	}
	for i := 0; i < 8; i++ {
		w.Balances[string(user(i))] = big.NewInt(1000000000)
	}
	w.Balances[string(vm.EndOfEpochAddress)] = big.NewInt(1000000000)
	res := w.Call(vm.DelegationManagerSCAddress, user(0), "createNewDelegationContract",
		[][]byte{nbytes(0), nbytes(fee)}, big.NewInt(v0))
	if res.Code != vmcommon.Ok || len(res.Data) == 0 {
		panic(fmt.Sprintf("createNewDelegationContract failed: %v %s", res.Code, res.Message))
	}
	return &delegationSut{w: w, addr: res.Data[len(res.Data)-1]}
}

func (s *delegationSut) call(caller []byte, fn string, value int64, args ...[]byte) (*sysvm.Result, int64) {
	res := s.w.Call(s.addr, caller, fn, args, big.NewInt(value))
	paid := big.NewInt(0)
	for _, t := range res.Transfers {
		if t.Dest == string(caller) {
			paid.Add(paid, t.Value)
		}
	}
	return res, paid.Int64()
}

// one delegation scenario: stakes are fixed first, then some epochs with rewards (the owner may change the
// service fee between epochs), then everybody claims
func delegationRun(rng *rand.Rand, w *vtrace.Writer) bool {
	maxFees := []uint64{10000, 10000, 100, 3, 7, 1 << 20, 999983}
	maxFee := maxFees[rng.Intn(len(maxFees))]
	pickFee := func() int64 {
		switch rng.Intn(5) {
		case 0:
			return 0
		case 1:
			return int64(maxFee)
		}
		return rng.Int63n(int64(maxFee) + 1)
	}
	n := 1 + rng.Intn(5)
	stakes := make([]int, n)
	stakes[0] = 1 + rng.Intn(30000)
	if rng.Intn(3) == 0 {
		stakes[0] = 1
	}
	fee := pickFee()
	s := newDelegation(maxFee, fee, int64(stakes[0]))
	total := stakes[0]
	for i := 1; i < n; i++ {
		stakes[i] = 1 + rng.Intn(30000)
		if rng.Intn(4) == 0 {
			stakes[i] = 1 + rng.Intn(5)
		}
		if res, _ := s.call(user(i), "delegate", int64(stakes[i])); res.Code != vmcommon.Ok {
			vtrace.Broken("delegate failed: " + res.Message)
			return false
		}
		total += stakes[i]
	}
	ne := 1 + rng.Intn(4)
	var eps []M
	for e := 0; e < ne; e++ {
		s.w.Epoch++
		s.w.Nonce += 10
		s.w.Round += 10
		if e > 0 && rng.Intn(2) == 0 {
			fee = pickFee()
			if res, _ := s.call(user(0), "changeServiceFee", 0, nbytes(fee)); res.Code != vmcommon.Ok {
				vtrace.Broken("changeServiceFee failed: " + res.Message)
				return false
			}
		}
		rewards := rng.Intn(60000)
		if rng.Intn(6) == 0 {
			rewards = rng.Intn(12)
		}
		if res, _ := s.call(vm.EndOfEpochAddress, "updateRewards", int64(rewards)); res.Code != vmcommon.Ok {
			vtrace.Broken("updateRewards failed: " + res.Message)
			return false
		}
		// the percentage the contract computes: float64(serviceFee) / float64(maxServiceFee)
		num, k := decimal(float64(uint64(fee)) / float64(maxFee))
		eps = append(eps, M{"rewards": rewards, "fee": M{"num": limbs(num), "k": k}, "total": total})
	}
	s.w.Epoch++
	claims := make([]int, n)
	for i := 0; i < n; i++ {
		res, paid := s.call(user(i), "claimRewards", 0)
		if res.Code != vmcommon.Ok {
			vtrace.Broken("claimRewards failed: " + res.Message)
			return false
		}
		claims[i] = int(paid)
	}
	w.Emit("Split", M{"stakes": stakes, "epochs": eps}, M{"claims": claims}, M{})
	return true
}

func record(seed int64, calls, contracts int, out string) {
	w, err := vtrace.NewWriter(out)
	if err != nil {
		vtrace.Broken(err.Error())
		return
	}
	rng := rand.New(rand.NewSource(seed))
	distinct := vtrace.NewDistinct()
	long, supp := 0, 0
	for i := 0; i < calls; i++ {
		v := randomAmount(rng)
		p := randomPercentage(rng)
		num, k := decimal(p)
		in := M{"v": limbs(v), "num": limbs(num), "k": k}
		r := core.GetIntTrimmedPercentageOfValue(v, p)
		if r.Sign() < 0 {
			vtrace.Violation(prop, "C36/pct/negative-result", fmt.Sprintf("GetIntTrimmedPercentageOfValue(%s, %v) = %s", v, p, r), nil)
			continue
		}
		w.Emit("Pct", in, M{"r": limbs(r)}, M{})
		distinct.Add(fmt.Sprint(len(in["v"].([]int)), k, num.Sign() == 0, num.Cmp(pow10(k)) == 0))
		if k >= 15 {
			long++
		}
		// supplementary oracle (math/big, not the specification): r = floor(v * num / 10^k), 0 <= r <= v
		lhs := new(big.Int).Mul(r, pow10(k))
		mid := new(big.Int).Mul(v, num)
		rhs := new(big.Int).Add(lhs, pow10(k))
		if lhs.Cmp(mid) > 0 || mid.Cmp(rhs) >= 0 || r.Cmp(v) > 0 {
			supp++
			if supp <= 2 {
				vtrace.Violation(prop, "C36/pct/supplementary-floor-identity",
					fmt.Sprintf("GetIntTrimmedPercentageOfValue(%s, %v) = %s is not floor(v*%s/10^%d) (math/big evaluation)", v, p, r, num, k), nil)
			}
		}
		if i%5 == 0 {
			a := core.GetApproximatePercentageOfValue(v, p)
			if a.Sign() >= 0 {
				w.Emit("Approx", in, M{"r": limbs(a)}, M{})
			} else {
				vtrace.Violation(prop, "C36/approx/negative-result", fmt.Sprintf("GetApproximatePercentageOfValue(%s, %v) = %s", v, p, a), nil)
			}
		}
		if i < 2 {
			vtrace.Sample(prop, M{"v": v.String(), "p": strconv.FormatFloat(p, 'f', -1, 64), "result": r.String()})
		}
	}
	okc := 0
	for c := 0; c < contracts; c++ {
		if delegationRun(rng, w) {
			okc++
		}
	}
	must(w.Close())
	vtrace.Stat("events", w.N)
	vtrace.Stat("pct_calls", calls)
	vtrace.Stat("long_fraction_calls", long)
	vtrace.Stat("contracts", okc)
	vtrace.Stat("distinct", distinct.Len())
}

// replay evaluates TLC-enumerated small Pct inputs on the real function (p is rebuilt from num/10^k; only
// inputs whose float64 renders back to the same decimal are usable -- the others are counted as skipped)
func replay(path string) {
	bs, err := vtrace.ReadBehaviours(path)
	if err != nil {
		vtrace.Broken(err.Error())
		return
	}
	steps, skipped, bad := 0, 0, 0
	distinct := vtrace.NewDistinct()
	for bi, b := range bs {
		for _, st := range b {
			if st.A != "Pct" {
				continue
			}
			v := fromLimbs(st.In["v"])
			num := fromLimbs(st.In["num"])
			k := vtrace.Int(st.In["k"])
			p, _ := new(big.Rat).SetFrac(num, pow10(k)).Float64()
			n2, k2 := decimal(p)
			// the same decimal may be written with trailing zeros in the model (5/10 = 50/100)
			if new(big.Int).Mul(n2, pow10(k)).Cmp(new(big.Int).Mul(num, pow10(k2))) != 0 {
				skipped++
				continue
			}
			steps++
			distinct.Add(fmt.Sprint(v, n2, k2))
			got := core.GetIntTrimmedPercentageOfValue(v, p)
			want := fromLimbs(st.Out["r"])
			if got.Cmp(want) != 0 {
				bad++
				if bad <= 3 {
					vtrace.Violation(prop, "C36/pct/small-input-differs-from-floor",
						fmt.Sprintf("GetIntTrimmedPercentageOfValue(%s, %v) = %s, specification floor(v*p) = %s", v, p, got, want),
						M{"behaviour": b})
				}
			}
		}
		if bi < 2 {
			vtrace.Sample(prop, b)
		}
	}
	vtrace.Stat("behaviours", len(bs))
	vtrace.Stat("steps", steps)
	vtrace.Stat("skipped", skipped)
	vtrace.Stat("distinct", distinct.Len())
}

func main() {
	vtrace.Quiet()
	if len(os.Args) < 2 {
		fmt.Fprintln(os.Stderr, "usage: vh-percent record <seed> <calls> <contracts> <out> | replay <file>")
		os.Exit(2)
	}
	switch os.Args[1] {
	case "record":
		seed, _ := strconv.ParseInt(os.Args[2], 10, 64)
		calls, _ := strconv.Atoi(os.Args[3])
		contracts, _ := strconv.Atoi(os.Args[4])
		record(seed, calls, contracts, os.Args[5])
	case "replay":
		replay(os.Args[2])
	default:
		os.Exit(2)
	}
}
