package main

import (
	"bufio"
	"bytes"
	"encoding/json"
	"fmt"
	"math/big"
	"os"
	"runtime/debug"
	"sort"
	"strings"

	"github.com/ElrondNetwork/elrond-go/process/smartContract/hooks"
	"github.com/ElrondNetwork/elrond-go/testscommon"
	"github.com/ElrondNetwork/elrond-go/vm"
	"github.com/ElrondNetwork/elrond-go/vm/mock"
	"github.com/ElrondNetwork/elrond-go/vm/systemSmartContracts"
	vmcommon "github.com/ElrondNetwork/elrond-vm-common"
	"github.com/ElrondNetwork/elrond-vm-common/parsers"
	"verif/harness/internal/vtrace"
)

// ---------------------------------------------------------------- concretisation of the abstract names

func addrOf(name string) []byte {
	b := bytes.Repeat([]byte{'.'}, 32)
	copy(b, name)
	return b
}

func nameOf(addr []byte) string { return strings.TrimRight(string(addr), ".") }

func enc(v int) []byte {
	if v == 0 {
		return []byte{}
	}
	return []byte{byte(v)}
}

func dec(b []byte) int {
	switch len(b) {
	case 0:
		return 0
	case 1:
		return int(b[0])
	}
	return 1000 + len(b)
}

// ---------------------------------------------------------------- projection of the real vmContext

type accP struct {
	D  int
	Tr []int
}

type proj struct {
	Stor map[string]map[string]int
	Own  map[string]int
	Acc  map[string]accP
}

func (a accP) eff() accP {
	r := accP{D: a.D}
	for _, t := range a.Tr {
		if t != 0 {
			r.Tr = append(r.Tr, t)
		}
	}
	return r
}

func (a accP) eq(b accP) bool { return a.D == b.D && vtrace.EqInts(a.Tr, b.Tr) }

func (a accP) String() string { return fmt.Sprintf("{d:%d tr:%v}", a.D, a.Tr) }

// observeAccounts reads the host's output accounts through CreateVMOutput (non-mutating). Entries that only
// carry storage updates have a nil BalanceDelta and are not output accounts of the host.
func observeAccounts(eei vm.ContextHandler, name func([]byte) string) map[string]accP {
	res := map[string]accP{}
	out := eei.CreateVMOutput()
	for _, oa := range out.OutputAccounts {
		if oa.BalanceDelta == nil {
			continue
		}
		p := accP{D: int(oa.BalanceDelta.Int64()), Tr: []int{}}
		for _, t := range oa.OutputTransfers {
			p.Tr = append(p.Tr, int(t.Value.Int64()))
		}
		res[name(oa.Address)] = p
	}
	return res
}

// ---------------------------------------------------------------- the scripted world

type world struct {
	eei   vm.ContextHandler
	base  map[string]map[string]int
	scs   []string
	keys  []string
	steps []vtrace.Step
	pos   int
	ret   *vtrace.Step // the Return record consumed by the callee that just returned
	bi    int

	// bookkeeping for classification only: slots written / value transfers made inside each open activation
	wrote   [][]string
	sent    []int
	drifted bool // the real state differed from the model's state at some earlier step of this behaviour

	rep *report
}

// preCall is the state observed right before an inner call, plus the call's value transfer
type preCall struct {
	p            proj
	dest, sender string
	v            int
}

func accJSON(m map[string]accP) map[string]interface{} {
	r := map[string]interface{}{}
	for a, p := range m {
		tr := []interface{}{}
		for _, t := range p.Tr {
			tr = append(tr, float64(t))
		}
		r[a] = map[string]interface{}{"d": float64(p.D), "tr": tr}
	}
	return r
}

func (c *preCall) asWant() map[string]interface{} {
	stor := map[string]interface{}{}
	for a, m := range c.p.Stor {
		mm := map[string]interface{}{}
		for k, v := range m {
			mm[k] = float64(v)
		}
		stor[a] = mm
	}
	own := map[string]interface{}{}
	for k, v := range c.p.Own {
		own[k] = float64(v)
	}
	cv := map[string]accP{}
	for a, p := range c.p.Acc {
		cv[a] = accP{D: p.D, Tr: append([]int{}, p.Tr...)}
	}
	s, d := cv[c.sender], accP{}
	s.D -= c.v
	cv[c.sender] = s
	d = cv[c.dest]
	d.D += c.v
	d.Tr = append(d.Tr, c.v)
	cv[c.dest] = d
	return map[string]interface{}{"stor": stor, "own": own, "acc": accJSON(c.p.Acc), "acccv": accJSON(cv)}
}

type report struct {
	steps, fails, nviol, ndrift int
	judgedOnObserved            int
	distinct                    *vtrace.Distinct
	sigs                        map[string]int
	codes                       map[string]int // failure codes returned by the scripted callees
}

func newWorld(first vtrace.Step, rep *report) *world {
	w := &world{base: map[string]map[string]int{}, rep: rep}
	for a, m := range asMap(first.In["base"]) {
		w.base[a] = map[string]int{}
		w.scs = append(w.scs, a)
		for k, v := range asMap(m) {
			w.base[a][k] = vtrace.Int(v)
		}
	}
	sort.Strings(w.scs)
	for k := range w.base[w.scs[0]] {
		w.keys = append(w.keys, k)
	}
	sort.Strings(w.keys)
	hook := &mock.BlockChainHookStub{
		GetStorageDataCalled: func(address []byte, index []byte) ([]byte, error) {
			if m, ok := w.base[nameOf(address)]; ok {
				return enc(m[string(index)]), nil
			}
			return nil, nil
		},
	}
	eei, err := systemSmartContracts.NewVMContext(hook, hooks.NewVMCryptoHook(), parsers.NewCallArgsParser(),
		&testscommon.AccountsStub{}, &mock.RaterMock{})
	if err != nil {
		panic(err)
	}
	stub := &mock.SystemSCStub{ExecuteCalled: func(args *vmcommon.ContractCallInput) vmcommon.ReturnCode {
		return w.run(true)
	}}
	_ = eei.SetSystemSCContainer(&mock.SystemSCContainerStub{GetCalled: func(key []byte) (vm.SystemSmartContract, error) {
		if _, ok := w.base[nameOf(key)]; ok {
			return stub, nil
		}
		return nil, vm.ErrUnknownSystemSmartContract
	}})
	w.eei = eei
	return w
}

func asMap(v interface{}) map[string]interface{} {
	if m, ok := v.(map[string]interface{}); ok {
		return m
	}
	return map[string]interface{}{} // ToJson prints the empty function as []
}

func (w *world) observe() proj {
	p := proj{Stor: map[string]map[string]int{}, Own: map[string]int{}}
	for _, a := range w.scs {
		p.Stor[a] = map[string]int{}
		for _, k := range w.keys {
			p.Stor[a][k] = dec(w.eei.GetStorageFromAddress(addrOf(a), []byte(k)))
		}
	}
	for _, k := range w.keys {
		p.Own[k] = dec(w.eei.GetStorage([]byte(k)))
	}
	p.Acc = observeAccounts(w.eei, nameOf)
	return p
}

func parseAcc(v interface{}) map[string]accP {
	res := map[string]accP{}
	for a, x := range asMap(v) {
		m := asMap(x)
		p := accP{D: vtrace.Int(m["d"]), Tr: []int{}}
		if tr, ok := m["tr"].([]interface{}); ok {
			for _, t := range tr {
				p.Tr = append(p.Tr, vtrace.Int(t))
			}
		}
		res[a] = p
	}
	return res
}

func accOf(m map[string]accP, a string) accP {
	if p, ok := m[a]; ok {
		return p
	}
	return accP{}
}

// diffState compares the observed projection with the state predicted by the specification (field st)
func (w *world) diffState(st map[string]interface{}, got proj) string {
	for a, m := range asMap(st["stor"]) {
		for k, v := range asMap(m) {
			if got.Stor[a][k] != vtrace.Int(v) {
				return fmt.Sprintf("GetStorageFromAddress(%s,%s)=%d, specification %d", a, k, got.Stor[a][k], vtrace.Int(v))
			}
		}
	}
	for k, v := range asMap(st["own"]) {
		if got.Own[k] != vtrace.Int(v) {
			return fmt.Sprintf("GetStorage(%s)=%d, specification %d", k, got.Own[k], vtrace.Int(v))
		}
	}
	exp := parseAcc(st["acc"])
	for a, p := range exp {
		g, ok := got.Acc[a]
		if !ok || !g.eq(p) {
			return fmt.Sprintf("output account %s = %v (present %v), specification %v", a, g, ok, p)
		}
	}
	for a, g := range got.Acc {
		if _, ok := exp[a]; !ok {
			return fmt.Sprintf("output account %s = %v, absent in the specification", a, g)
		}
	}
	return ""
}

func contains(l []string, s string) bool {
	for _, x := range l {
		if x == s {
			return true
		}
	}
	return false
}

// checkWant compares the state observed right after a failed inner call with the pre-call state the property
// demands (out.want, computed by TLC) and reports one violation per class
func (w *world) checkWant(st vtrace.Step, got proj, via string, depth int, wrote []string, sent int, pre *preCall) {
	want := asMap(st.Out["want"])
	if w.drifted && pre != nil {
		// the real state has left the model's state earlier in this behaviour, so the model's pre-call state is
		// not the state this call started from: judge against the state OBSERVED right before the call instead
		// (the property is literally "state after the failed call = state before it")
		want = pre.asWant()
		w.rep.judgedOnObserved++
	}
	w.rep.fails++
	report := func(kind, what string) {
		sig := fmt.Sprintf("C40/%s/%s", kind, via)
		w.rep.sigs[sig]++
		w.rep.nviol++
		if w.rep.sigs[sig] > 1 {
			return
		}
		vtrace.Violation("C40", sig, fmt.Sprintf("behaviour %d step %d (%s %v%s, nesting depth %d): %s", w.bi, w.pos-1, st.A, st.In, codeName(st), depth, what),
			M{"behaviour": append([]vtrace.Step{}, w.stepsWithNew()...), "step": w.pos, "observed": got, "want": want})
	}
	storOK := true
	for a, m := range asMap(want["stor"]) {
		for k, v := range asMap(m) {
			if g := got.Stor[a][k]; g != vtrace.Int(v) {
				storOK = false
				if contains(wrote, a+"|"+k) {
					report("storage-write-survives-failed-inner-call",
						fmt.Sprintf("after the failed inner call GetStorageFromAddress(%s,%s)=%d but it was %d before the call", a, k, g, vtrace.Int(v)))
				} else {
					report("caller-storage-changed-by-failed-inner-call",
						fmt.Sprintf("after the failed inner call GetStorageFromAddress(%s,%s)=%d but it was %d before the call (slot not written inside the call)", a, k, g, vtrace.Int(v)))
				}
			}
		}
	}
	if storOK {
		for k, v := range asMap(want["own"]) {
			if g := got.Own[k]; g != vtrace.Int(v) {
				report("caller-context-not-restored-after-failed-inner-call",
					fmt.Sprintf("after the failed inner call the caller's GetStorage(%s)=%d but it was %d before the call", k, g, vtrace.Int(v)))
				break
			}
		}
	}
	eqAcc := func(exp map[string]accP) (bool, string) {
		names := map[string]bool{}
		for a := range exp {
			names[a] = true
		}
		for a := range got.Acc {
			names[a] = true
		}
		for a := range names {
			if g, e := accOf(got.Acc, a).eff(), accOf(exp, a).eff(); !g.eq(e) {
				return false, fmt.Sprintf("account %s is %v in CreateVMOutput but was %v before the call", a, g, e)
			}
		}
		return true, ""
	}
	ok, what := eqAcc(parseAcc(want["acc"]))
	if ok {
		return
	}
	if okcv, _ := eqAcc(parseAcc(want["acccv"])); okcv {
		report("call-value-transfer-survives-failed-inner-call", "the value sent with the failed call stays transferred: "+what)
		return
	}
	_ = sent
	report("output-accounts-changed-by-failed-inner-call", "the caller's output accounts are not the pre-call accounts: "+what)
}

func codeName(st vtrace.Step) string {
	if c, ok := st.In["code"]; ok {
		return " = " + vmcommon.ReturnCode(vtrace.Int(c)).String()
	}
	return ""
}

func (w *world) stepsWithNew() []vtrace.Step { return w.steps }

func (w *world) check(st vtrace.Step) proj {
	got := w.observe()
	w.rep.steps++
	if d := w.diffState(st.St, got); d != "" {
		w.drifted = true
		w.rep.ndrift++
		if w.rep.ndrift <= 3 {
			vtrace.Drift("C40", fmt.Sprintf("behaviour %d step %d (%s %v): %s", w.bi, w.pos-1, st.A, st.In, d),
				M{"behaviour": w.steps, "step": w.pos})
		}
	}
	return got
}

func (w *world) noteWrite(slot string) {
	for i := range w.wrote {
		w.wrote[i] = append(w.wrote[i], slot)
	}
}

func (w *world) noteSent() {
	for i := range w.sent {
		w.sent[i]++
	}
}

func (w *world) push() { w.wrote = append(w.wrote, nil); w.sent = append(w.sent, 0) }
func (w *world) pop() ([]string, int) {
	n := len(w.wrote) - 1
	a, b := w.wrote[n], w.sent[n]
	w.wrote, w.sent = w.wrote[:n], w.sent[:n]
	return a, b
}

// run is the body of every stub contract: it executes the next steps of the behaviour until its own Return
func (w *world) run(entered bool) vmcommon.ReturnCode {
	if entered {
		// the Call/Deploy record that started this activation describes the state at callee entry
		w.check(w.steps[w.pos-1])
	}
	cur := func() string { return vtrace.Str(w.steps[w.pos-1].St["sc"]) }
	for w.pos < len(w.steps) {
		st := w.steps[w.pos]
		me := cur()
		w.pos++
		switch st.A {
		case "Set":
			a, k, v := vtrace.Str(st.In["addr"]), vtrace.Str(st.In["k"]), vtrace.Int(st.In["v"])
			if a == me {
				w.eei.SetStorage([]byte(k), enc(v))
			} else {
				w.eei.SetStorageForAddress(addrOf(a), []byte(k), enc(v))
			}
			w.noteWrite(a + "|" + k)
			w.check(st)
		case "Transfer":
			err := w.eei.Transfer(addrOf(vtrace.Str(st.In["dest"])), addrOf(vtrace.Str(st.In["sender"])),
				big.NewInt(int64(vtrace.Int(st.In["v"]))), []byte("t"), 0)
			if err != nil {
				vtrace.Broken("Transfer failed: " + err.Error())
			}
			w.noteSent()
			w.check(st)
		case "GetBalance":
			_ = w.eei.GetBalance(addrOf(vtrace.Str(st.In["addr"])))
			w.check(st)
		case "Call", "Deploy":
			w.ret = nil
			dest := vtrace.Str(st.In["dest"])
			val := big.NewInt(int64(vtrace.Int(st.In["v"])))
			if val.Sign() != 0 {
				w.noteSent() // a value transfer made inside every enclosing activation
			}
			sender := me
			if st.A == "Call" {
				sender = vtrace.Str(st.In["sender"])
			}
			pre := &preCall{p: w.observe(), dest: dest, sender: sender, v: int(val.Int64())}
			w.push()
			var code vmcommon.ReturnCode
			if st.A == "Call" {
				out, err := w.eei.ExecuteOnDestContext(addrOf(dest), addrOf(vtrace.Str(st.In["sender"])), val, []byte("run"))
				if err != nil || out == nil {
					vtrace.Broken(fmt.Sprintf("ExecuteOnDestContext to a registered stub failed: %v", err))
					return vmcommon.Ok
				}
				code = out.ReturnCode
			} else {
				c, err := w.eei.DeploySystemSC(addrOf(dest), addrOf(dest), addrOf("U"), "_init", val, nil)
				if err != nil {
					vtrace.Broken(fmt.Sprintf("DeploySystemSC of a registered stub failed: %v", err))
					return vmcommon.Ok
				}
				code = c
			}
			wrote, sent := w.pop()
			if w.ret == nil {
				return vmcommon.Ok // behaviour exhausted inside the callee: unwinding
			}
			r := *w.ret
			w.ret = nil
			ok := r.In["ok"].(bool)
			if ok != (code == vmcommon.Ok) {
				vtrace.Broken(fmt.Sprintf("inner call returned %v, scripted ok=%v", code, ok))
			}
			got := w.check(r)
			if !ok {
				via := "ExecuteOnDestContext"
				if vtrace.Str(r.In["via"]) == "deploy" {
					via = "DeploySystemSC"
				}
				w.checkWant(r, got, via, vtrace.Int(r.In["depth"]), wrote, sent, pre)
			}
		case "CallMissing":
			depth := vtrace.Int(w.steps[w.pos-2].St["depth"]) + 1
			pre := &preCall{p: w.observe(), dest: vtrace.Str(st.In["dest"]), sender: vtrace.Str(st.In["sender"]), v: vtrace.Int(st.In["v"])}
			out, err := w.eei.ExecuteOnDestContext(addrOf(vtrace.Str(st.In["dest"])), addrOf(vtrace.Str(st.In["sender"])),
				big.NewInt(int64(vtrace.Int(st.In["v"]))), []byte("run"))
			if err == nil {
				vtrace.Broken(fmt.Sprintf("ExecuteOnDestContext to an address without contract succeeded: %v", out))
			}
			got := w.check(st)
			w.checkWant(st, got, "missing-contract", depth, nil, 0, pre)
			if vtrace.Int(st.In["v"]) != 0 {
				w.noteSent() // for the enclosing activations this was a value transfer made inside them
			}
		case "Return":
			w.ret = &w.steps[w.pos-1]
			// the failure code is chosen by TLC: any vmcommon.ReturnCode other than Ok is "the inner call failed"
			code := vmcommon.ReturnCode(vtrace.Int(st.In["code"]))
			if code != vmcommon.Ok {
				w.rep.codes[code.String()]++
			}
			return code
		default:
			panic("unknown action " + st.A)
		}
	}
	return vmcommon.Ok
}

func replay(path string) {
	// behaviours are streamed (one JSON line at a time): the files reach tens of MB and decoding them all at once
	// makes the garbage collector the dominant cost
	f, err := os.Open(path)
	if err != nil {
		vtrace.Broken(err.Error())
		return
	}
	defer f.Close()
	debug.SetGCPercent(400)
	rd := bufio.NewReaderSize(f, 1<<20)
	rep := &report{distinct: vtrace.NewDistinct(), sigs: map[string]int{}, codes: map[string]int{}}
	nontrivial := 0
	nb := 0
	for bi := 0; ; bi++ {
		line, rerr := rd.ReadBytes('\n')
		if len(line) <= 1 {
			if rerr != nil {
				break
			}
			bi--
			continue
		}
		var b []vtrace.Step
		if e := json.Unmarshal(line, &b); e != nil {
			vtrace.Broken(fmt.Sprintf("behaviour line %d: %v", bi+1, e))
			return
		}
		nb++
		if len(b) == 0 || b[0].A != "New" {
			vtrace.Broken("behaviour without New record")
			return
		}
		w := newWorld(b[0], rep)
		w.steps, w.pos, w.bi = b, 1, bi
		top := vtrace.Str(b[0].In["top"])
		// systemVM.RunSmartContractCall
		w.eei.CleanCache()
		w.eei.SetSCAddress(addrOf(top))
		w.eei.AddTxValueToSmartContract(big.NewInt(0), addrOf(top))
		w.check(b[0])
		w.run(false)
		_ = w.eei.CreateVMOutput()
		// distinct non-trivial: the behaviour contains a failed inner call that had an effect to undo
		key, nt := "", false
		for _, s := range b {
			key += fmt.Sprint(s.A, s.In, ";")
			if _, f := s.Out["want"]; f {
				nt = true
			}
		}
		if nt {
			nontrivial++
			rep.distinct.Add(key)
		}
		if bi < 2 || (nt && bi%5000 == 7) {
			vtrace.Sample("C40", b)
		}
	}
	vtrace.Stat("behaviours", nb)
	vtrace.Stat("steps", rep.steps)
	vtrace.Stat("failed_inner_calls", rep.fails)
	vtrace.Stat("distinct", rep.distinct.Len())
	vtrace.Stat("violations", rep.nviol)
	vtrace.Stat("drifts", rep.ndrift)
	vtrace.Stat("judged_on_observed_precall_state", rep.judgedOnObserved)
	sigs := []string{}
	for s, n := range rep.sigs {
		sigs = append(sigs, fmt.Sprintf("%s x%d", s, n))
	}
	sort.Strings(sigs)
	vtrace.Stat("signatures", sigs)
	cl := []string{}
	for c, n := range rep.codes {
		cl = append(cl, fmt.Sprintf("%s x%d", c, n))
	}
	sort.Strings(cl)
	vtrace.Stat("failure_codes", cl)
}
