package main

func recordStub(seed int64, traces, n int, out string) {}
func recordReal(seed int64, traces int, out string)   {}
