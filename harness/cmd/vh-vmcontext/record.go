package main

import (
	"fmt"
	"math/big"
	"math/rand"
	"sort"
	"strings"

	"github.com/ElrondNetwork/elrond-go/process/smartContract/hooks"
	"github.com/ElrondNetwork/elrond-go/testscommon"
	"github.com/ElrondNetwork/elrond-go/vm"
	"github.com/ElrondNetwork/elrond-go/vm/mock"
	"github.com/ElrondNetwork/elrond-go/vm/systemSmartContracts"
	vmcommon "github.com/ElrondNetwork/elrond-vm-common"
	"github.com/ElrondNetwork/elrond-vm-common/parsers"
	"verif/harness/internal/vtrace"
)

// recEEI is a recording decorator around the real vmContext.  The contracts under test (stubs or the real
// validator / staking / delegation contracts) receive it as their EEI; every state-changing EEI call is forwarded
// to the real vmContext and logged as one event of specs/VmContext together with the state OBSERVED afterwards:
// GetStorageFromAddress of every slot touched in this transaction and the output accounts of CreateVMOutput.
// The real vmContext calls the callee through the container; the container hands out recSC wrappers whose
// Execute logs the Call / Deploy event at callee entry.
type recEEI struct {
	vm.ContextHandler // the real vmContext
	w                 *vtrace.Writer
	store             map[string]map[string][]byte // committed storage behind the blockchain hook
	names             map[string]string            // address -> readable name
	keys              *vtrace.Interner
	vals              *vtrace.Interner
	addrs             *vtrace.Interner
	slots             []string // touched slots (interned names), in first-touch order
	slotOf            map[string][2]string
	cur               []string // scAddress stack (names)
	fn                []string // function stack
	pending           *pendingCall
	events, fails     int
	sites             map[string]int
	msgs              map[string]int
	broken            string
	stubSites         bool // stub contracts have no meaningful call sites
	lastFull          string
}

type pendingCall struct {
	api, dest, sender, site, full string
	v                             int
	entered                       bool
}

func newRecEEI(w *vtrace.Writer, hook vm.BlockchainHook, store map[string]map[string][]byte, names map[string]string,
	peers *testscommon.AccountsStub) *recEEI {
	if peers == nil {
		peers = &testscommon.AccountsStub{}
	}
	eei, err := systemSmartContracts.NewVMContext(hook, hooks.NewVMCryptoHook(), parsers.NewCallArgsParser(),
		peers, &mock.RaterMock{})
	if err != nil {
		panic(err)
	}
	return &recEEI{ContextHandler: eei, w: w, store: store, names: names, sites: map[string]int{}, msgs: map[string]int{}}
}

func (r *recEEI) name(addr []byte) string {
	if n, ok := r.names[string(addr)]; ok {
		return n
	}
	return fmt.Sprintf("a%d", r.addrs.ID(addr))
}

func (r *recEEI) val(b []byte) int {
	if len(b) == 0 {
		return 0
	}
	return r.vals.ID(b)
}

func (r *recEEI) amount(v *big.Int) int {
	if v == nil {
		return 0
	}
	if !v.IsInt64() || v.Int64() > 1<<28 || v.Int64() < -(1<<28) {
		r.broken = "amount outside the TLC integer domain: " + v.String()
		return 0
	}
	return int(v.Int64())
}

func (r *recEEI) touch(addr, key []byte) string {
	s := r.name(addr) + "|" + fmt.Sprintf("k%d", r.keys.ID(key))
	if _, ok := r.slotOf[s]; !ok {
		r.slotOf[s] = [2]string{string(addr), string(key)}
		r.slots = append(r.slots, s)
	}
	return s
}

func (r *recEEI) observe() M {
	stor := M{}
	for _, s := range r.slots {
		ak := r.slotOf[s]
		stor[s] = r.val(r.ContextHandler.GetStorageFromAddress([]byte(ak[0]), []byte(ak[1])))
	}
	acc := M{}
	for a, p := range observeAccounts(r.ContextHandler, r.name) {
		if p.D > 1<<28 || p.D < -(1<<28) {
			r.broken = "balance delta outside the TLC integer domain"
		}
		acc[a] = M{"d": p.D, "tr": p.Tr}
	}
	return M{"stor": stor, "acc": acc}
}

func (r *recEEI) emit(a string, in M) {
	r.w.Emit(a, in, M{"x": 0}, r.observe())
	r.events++
}

// begin starts a transaction the way systemVM.RunSmartContractCall does and emits the New event
func (r *recEEI) begin(top []byte, function string, value *big.Int) {
	r.keys, r.vals, r.addrs = vtrace.NewInterner(), vtrace.NewInterner(), vtrace.NewInterner()
	r.slots, r.slotOf = nil, map[string][2]string{}
	r.ContextHandler.CleanCache()
	r.ContextHandler.SetSCAddress(top)
	r.ContextHandler.AddTxValueToSmartContract(value, top)
	r.ContextHandler.SetGasProvided(1 << 40)
	r.cur, r.fn, r.pending = []string{r.name(top)}, []string{function}, nil
	base := M{}
	addrs := []string{}
	for a := range r.store {
		addrs = append(addrs, a)
	}
	sort.Strings(addrs)
	for _, a := range addrs {
		ks := []string{}
		for k := range r.store[a] {
			ks = append(ks, k)
		}
		sort.Strings(ks)
		for _, k := range ks {
			if len(r.store[a][k]) > 0 {
				base[r.touch([]byte(a), []byte(k))] = r.val(r.store[a][k])
			}
		}
	}
	r.w.NewTraceWith("New", M{"top": r.name(top), "base": base, "txv": r.amount(value), "fn": function}, M{"x": 0}, r.observe())
	r.events++
}

// commit applies a successful transaction's storage updates to the committed storage (what the node does)
func (r *recEEI) commit(out *vmcommon.VMOutput) {
	for addr, oa := range out.OutputAccounts {
		for k, su := range oa.StorageUpdates {
			if r.store[addr] == nil {
				r.store[addr] = map[string][]byte{}
			}
			r.store[addr][k] = append([]byte{}, su.Data...)
		}
	}
}

func (r *recEEI) me() []byte {
	// the current scAddress is tracked by name; recover the bytes
	n := r.cur[len(r.cur)-1]
	for a, nm := range r.names {
		if nm == n {
			return []byte(a)
		}
	}
	var id int
	fmt.Sscanf(n, "a%d", &id)
	return r.addrs.Bytes(id)
}

// ---- reads only make the slot part of the observation
func (r *recEEI) GetStorage(key []byte) []byte {
	r.touch(r.me(), key)
	return r.ContextHandler.GetStorage(key)
}

func (r *recEEI) GetStorageFromAddress(address []byte, key []byte) []byte {
	r.touch(address, key)
	return r.ContextHandler.GetStorageFromAddress(address, key)
}

// ---- state-changing calls
func (r *recEEI) SetStorage(key []byte, value []byte) {
	s := r.touch(r.me(), key)
	r.ContextHandler.SetStorage(key, value)
	p := strings.SplitN(s, "|", 2)
	r.emit("Set", M{"addr": p[0], "k": p[1], "v": r.val(value)})
}

func (r *recEEI) SetStorageForAddress(address []byte, key []byte, value []byte) {
	s := r.touch(address, key)
	r.ContextHandler.SetStorageForAddress(address, key, value)
	p := strings.SplitN(s, "|", 2)
	r.emit("Set", M{"addr": p[0], "k": p[1], "v": r.val(value)})
}

func (r *recEEI) Transfer(destination []byte, sender []byte, value *big.Int, input []byte, gasLimit uint64) error {
	err := r.ContextHandler.Transfer(destination, sender, value, input, gasLimit)
	r.emit("Transfer", M{"dest": r.name(destination), "sender": r.name(sender), "v": r.amount(value)})
	return err
}

func (r *recEEI) GetBalance(addr []byte) *big.Int {
	had := false
	for a := range observeAccounts(r.ContextHandler, r.name) {
		had = had || a == r.name(addr)
	}
	b := r.ContextHandler.GetBalance(addr)
	if !had {
		if _, now := observeAccounts(r.ContextHandler, r.name)[r.name(addr)]; now {
			r.emit("GetBalance", M{"addr": r.name(addr)})
		}
	}
	return b
}

func (r *recEEI) site(dest []byte, calleeFn string) string {
	if r.stubSites {
		r.lastFull = "stub"
		return "stub"
	}
	// the signature class is (caller contract -> callee contract.function); the caller's function is kept in
	// the statistics only, so that the class does not depend on which public entry point reached the call
	r.lastFull = fmt.Sprintf("%s.%s->%s.%s", r.cur[len(r.cur)-1], r.fn[len(r.fn)-1], r.name(dest), calleeFn)
	return fmt.Sprintf("%s->%s.%s", classOf(r.cur[len(r.cur)-1]), classOf(r.name(dest)), calleeFn)
}

// classOf drops the index of deployed delegation contracts: every instance runs the same code
func classOf(name string) string {
	if strings.HasPrefix(name, "delegation") && name != "delegationManager" {
		return "delegation"
	}
	return name
}

func fnOf(input []byte) string { return strings.SplitN(string(input), "@", 2)[0] }

func (r *recEEI) finishCall(p *pendingCall, code vmcommon.ReturnCode, msg string) {
	ok := code == vmcommon.Ok
	if !p.entered {
		// the callee never ran (no contract at the address, or the init function was called): the real
		// ExecuteOnDestContext has transferred the value, copied and restored the context
		r.pending = nil
		r.fails++
		r.sites[p.full+" [not entered]"]++
		r.emit("CallMissing", M{"dest": p.dest, "sender": p.sender, "v": p.v, "api": "missing-contract", "site": p.site})
		return
	}
	depth := len(r.cur) - 1
	r.cur, r.fn = r.cur[:len(r.cur)-1], r.fn[:len(r.fn)-1]
	via := "exec"
	if p.api == "DeploySystemSC" {
		via = "deploy"
	}
	if !ok {
		r.fails++
		r.sites[p.full]++
	}
	if !ok {
		r.msgs[p.full+": "+msg]++
	}
	r.emit("Return", M{"code": int(code), "ok": ok, "via": via, "depth": depth, "api": p.api, "site": p.site, "from": p.full, "msg": msg})
}

func (r *recEEI) ExecuteOnDestContext(destination []byte, sender []byte, value *big.Int, input []byte) (*vmcommon.VMOutput, error) {
	if _, _, err := parsers.NewCallArgsParser().ParseData(string(input)); err != nil {
		return r.ContextHandler.ExecuteOnDestContext(destination, sender, value, input) // fails before any effect
	}
	p := &pendingCall{api: "ExecuteOnDestContext", dest: r.name(destination), sender: r.name(sender), v: r.amount(value),
		site: r.site(destination, fnOf(input))}
	p.full = r.lastFull
	r.pending = p
	out, err := r.ContextHandler.ExecuteOnDestContext(destination, sender, value, input)
	msg := ""
	code := vmcommon.ExecutionFailed
	if err == nil && out != nil {
		msg, code = out.ReturnMessage, out.ReturnCode
	}
	r.finishCall(p, code, msg)
	return out, err
}

func (r *recEEI) DeploySystemSC(baseContract []byte, newAddress []byte, ownerAddress []byte, initFunction string,
	value *big.Int, input [][]byte) (vmcommon.ReturnCode, error) {
	if _, named := r.names[string(newAddress)]; !named && !r.stubSites {
		r.names[string(newAddress)] = fmt.Sprintf("delegation%d", len(r.names)) // only delegation contracts are deployed
	}
	p := &pendingCall{api: "DeploySystemSC", dest: r.name(newAddress), sender: r.cur[len(r.cur)-1], v: r.amount(value),
		site: r.site(newAddress, initFunction)}
	p.full = r.lastFull
	r.pending = p
	code, err := r.ContextHandler.DeploySystemSC(baseContract, newAddress, ownerAddress, initFunction, value, input)
	if !p.entered {
		r.pending = nil
		r.broken = "DeploySystemSC did not reach the contract: not modelled"
		return code, err
	}
	if err != nil {
		code = vmcommon.ExecutionFailed
	}
	r.finishCall(p, code, "")
	return code, err
}

// recSC wraps a contract handed out by the container: logs the Call / Deploy event at callee entry
type recSC struct {
	vm.SystemSmartContract
	r *recEEI
}

func (c *recSC) Execute(args *vmcommon.ContractCallInput) vmcommon.ReturnCode {
	r := c.r
	if p := r.pending; p != nil && !p.entered {
		p.entered = true
		r.pending = nil
		r.cur = append(r.cur, r.name(args.RecipientAddr))
		r.fn = append(r.fn, args.Function)
		if p.api == "DeploySystemSC" {
			r.emit("Deploy", M{"dest": p.dest, "v": p.v, "site": p.site})
		} else {
			r.emit("Call", M{"dest": p.dest, "sender": p.sender, "v": p.v, "site": p.site})
		}
	}
	return c.SystemSmartContract.Execute(args)
}

type recContainer struct {
	r   *recEEI
	get func(key []byte) (vm.SystemSmartContract, error)
}

func (c *recContainer) Get(key []byte) (vm.SystemSmartContract, error) {
	sc, err := c.get(key)
	if err != nil {
		return nil, err
	}
	return &recSC{SystemSmartContract: sc, r: c.r}, nil
}
func (c *recContainer) Add(key []byte, val vm.SystemSmartContract) error     { return nil }
func (c *recContainer) Replace(key []byte, val vm.SystemSmartContract) error { return nil }
func (c *recContainer) Remove(key []byte)                                    {}
func (c *recContainer) Len() int                                             { return 0 }
func (c *recContainer) Keys() [][]byte                                       { return nil }
func (c *recContainer) IsInterfaceNil() bool                                 { return c == nil }

// ------------------------------------------------------------------------------------------- stub driver

// recordStub: random scripts executed by stub contracts at sizes beyond the exhaustive model (3 contracts,
// 4 keys, nesting up to 5, foreign-address writes, GetBalance, deploys, calls to missing contracts)
func recordStub(seed int64, traces, n int, out string) {
	w, err := vtrace.NewWriter(out)
	if err != nil {
		vtrace.Broken(err.Error())
		return
	}
	rng := rand.New(rand.NewSource(seed))
	scs := []string{"A", "B", "C"}
	all := []string{"A", "B", "C", "U", "Z"}
	keys := []string{"k1", "k2", "k3", "k4"}
	names := map[string]string{}
	for _, a := range all {
		names[string(addrOf(a))] = a
	}
	store := map[string]map[string][]byte{}
	hook := &mock.BlockChainHookStub{GetStorageDataCalled: func(address []byte, index []byte) ([]byte, error) {
		return store[string(address)][string(index)], nil
	}}
	r := newRecEEI(w, hook, store, names, nil)
	r.stubSites = true
	budget := 0
	var body func(depth int) vmcommon.ReturnCode
	body = func(depth int) vmcommon.ReturnCode {
		for budget > 0 {
			budget--
			me := r.me()
			switch x := rng.Intn(100); {
			case x < 30:
				v := []byte{byte(1 + rng.Intn(5))}
				if rng.Intn(5) == 0 {
					v = nil
				}
				if rng.Intn(6) == 0 {
					r.SetStorageForAddress(addrOf(scs[rng.Intn(3)]), []byte(keys[rng.Intn(4)]), v)
				} else {
					r.SetStorage([]byte(keys[rng.Intn(4)]), v)
				}
			case x < 45:
				_ = r.Transfer(addrOf(all[rng.Intn(5)]), me, big.NewInt(int64(rng.Intn(4))), []byte("t"), 0)
			case x < 50:
				// (GetBalance of an address that already has an output account without Balance -- e.g. the one
				// made by AddTxValueToSmartContract -- dereferences nil in the real code: not exercised)
				a := all[rng.Intn(5)]
				if _, has := observeAccounts(r.ContextHandler, r.name)[a]; !has {
					_ = r.GetBalance(addrOf(a))
				}
			case x < 70:
				if depth < 5 {
					_, _ = r.ExecuteOnDestContext(addrOf(scs[rng.Intn(3)]), me, big.NewInt(int64(rng.Intn(3)*2)), []byte("run@01"))
				}
			case x < 75:
				if depth < 5 {
					d := addrOf(scs[rng.Intn(3)])
					_, _ = r.DeploySystemSC(d, d, addrOf("U"), "_init", big.NewInt(int64(rng.Intn(2)*5)), nil)
				}
			case x < 80:
				_, _ = r.ExecuteOnDestContext(addrOf("Z"), me, big.NewInt(int64(rng.Intn(2)*7)), []byte("run"))
			case x < 83:
				_, _ = r.ExecuteOnDestContext(addrOf(scs[rng.Intn(3)]), me, big.NewInt(3), []byte("_init")) // refused
			case x < 86:
				_ = r.GetStorageFromAddress(addrOf(scs[rng.Intn(3)]), []byte(keys[rng.Intn(4)]))
			default:
				if depth > 0 {
					if rng.Intn(2) == 0 {
						// any failure code a contract can return (vmcommon.ReturnCode 1..12)
						return vmcommon.ReturnCode(1 + rng.Intn(12))
					}
					return vmcommon.Ok
				}
			}
		}
		return vmcommon.Ok
	}
	depth := 0
	stub := &mock.SystemSCStub{ExecuteCalled: func(args *vmcommon.ContractCallInput) vmcommon.ReturnCode {
		depth++
		defer func() { depth-- }()
		return body(depth)
	}}
	_ = r.ContextHandler.SetSystemSCContainer(&recContainer{r: r, get: func(key []byte) (vm.SystemSmartContract, error) {
		n := nameOf(key)
		if n == "A" || n == "B" || n == "C" {
			return stub, nil
		}
		return nil, vm.ErrUnknownSystemSmartContract
	}})
	for t := 0; t < traces; t++ {
		// committed storage before the transaction
		for k := range store {
			delete(store, k)
		}
		for _, a := range scs {
			store[string(addrOf(a))] = map[string][]byte{}
			for _, k := range keys {
				if rng.Intn(2) == 0 {
					store[string(addrOf(a))][k] = []byte{byte(10 + rng.Intn(3))}
				}
			}
		}
		top := addrOf(scs[rng.Intn(3)])
		r.begin(top, "run", big.NewInt(int64(rng.Intn(2)*9)))
		budget = n
		depth = 0
		body(0)
		_ = r.ContextHandler.CreateVMOutput()
	}
	if err := w.Close(); err != nil {
		vtrace.Broken(err.Error())
	}
	if r.broken != "" {
		vtrace.Broken(r.broken)
	}
	vtrace.Stat("events", r.events)
	vtrace.Stat("traces", traces)
	vtrace.Stat("failed_inner_calls", r.fails)
}
