// vh-vmcontext binds specs/VmContext to the real vm/systemSmartContracts.vmContext (property C40).
//
//	vh-vmcontext replay <behaviours.ndjson>
//	    TLC behaviours (Set / Transfer / Call / Deploy / Return / CallMissing) are executed by scripted stub
//	    contracts on a real vmContext; after every step the real GetStorage / GetStorageFromAddress /
//	    CreateVMOutput are compared with the state the specification predicts, and after every failed
//	    inner call with the pre-call state the property demands (computed by TLC, field out.want).
//	vh-vmcontext record-stub <seed> <traces> <len> <out.ndjson>
//	    random scripts on stub contracts (more contracts, keys, deeper nesting) recorded through the
//	    recording EEI decorator for TLC trace validation (Trace_VmContext).
//	vh-vmcontext record-real <seed> <traces> <out.ndjson>
//	    the real validator and staking contracts on the real vmContext (validator -> staking nested calls),
//	    recorded through the same decorator.
package main

import (
	"fmt"
	"os"
	"runtime/pprof"
	"strconv"

	"verif/harness/internal/vtrace"
)

type M = vtrace.M

func main() {
	vtrace.Quiet()
	if len(os.Args) < 3 {
		fmt.Fprintln(os.Stderr, "usage: vh-vmcontext replay <file> | record-stub <seed> <traces> <len> <out> | record-real <seed> <traces> <out>")
		os.Exit(2)
	}
	if pf := os.Getenv("VH_PROF"); pf != "" {
		f, _ := os.Create(pf)
		_ = pprof.StartCPUProfile(f)
		defer pprof.StopCPUProfile()
	}
	switch os.Args[1] {
	case "replay":
		replay(os.Args[2])
	case "record-stub":
		seed, _ := strconv.ParseInt(os.Args[2], 10, 64)
		traces, _ := strconv.Atoi(os.Args[3])
		n, _ := strconv.Atoi(os.Args[4])
		recordStub(seed, traces, n, os.Args[5])
	case "record-real":
		seed, _ := strconv.ParseInt(os.Args[2], 10, 64)
		traces, _ := strconv.Atoi(os.Args[3])
		recordReal(seed, traces, os.Args[4])
	default:
		os.Exit(2)
	}
}
