package main

import (
	"encoding/hex"
	"fmt"
	"math/big"
	"math/rand"
	"os"
	"sort"

	"github.com/ElrondNetwork/elrond-go/config"
	"github.com/ElrondNetwork/elrond-go/marshal"
	processMock "github.com/ElrondNetwork/elrond-go/process/mock"
	"github.com/ElrondNetwork/elrond-go/testscommon"
	"github.com/ElrondNetwork/elrond-go/vm"
	"github.com/ElrondNetwork/elrond-go/vm/mock"
	"github.com/ElrondNetwork/elrond-go/vm/systemSmartContracts"
	vmcommon "github.com/ElrondNetwork/elrond-vm-common"
	"verif/harness/internal/vtrace"
)

// recordReal drives the REAL validator and staking system contracts (validator -> staking nested calls through
// the real vmContext.ExecuteOnDestContext) with seeded random transactions: users stake / unStake / unBond /
// unJail several BLS keys, the protocol addresses jail, switch jailed with waiting, unStake at end of epoch, stake
// from the queue and change the node limits.  Small node limits (min/max 1..3) make inner staking calls fail
// often.  Every EEI effect is recorded through the recEEI decorator; one "trace" is one transaction.
// `worlds` = number of independent contract worlds (each with its own limits and feature flags).
func recordReal(seed int64, worlds int, out string) {
	w, err := vtrace.NewWriter(out)
	if err != nil {
		vtrace.Broken(err.Error())
		return
	}
	rng := rand.New(rand.NewSource(seed))
	txs, events, fails := 0, 0, 0
	sites := map[string]int{}
	codes := map[string]int{}
	for wi := 0; wi < worlds; wi++ {
		n, ev, f := realWorld(w, rng, wi, sites, codes)
		txs += n
		events += ev
		fails += f
	}
	if err := w.Close(); err != nil {
		vtrace.Broken(err.Error())
	}
	vtrace.Stat("events", events)
	vtrace.Stat("traces", txs)
	vtrace.Stat("failed_inner_calls", fails)
	sl := []string{}
	for s, n := range sites {
		sl = append(sl, fmt.Sprintf("%s x%d", s, n))
	}
	sort.Strings(sl)
	vtrace.Stat("sites", sl)
	cl := []string{}
	for s, n := range codes {
		cl = append(cl, fmt.Sprintf("%s x%d", s, n))
	}
	sort.Strings(cl)
	vtrace.Stat("top_level_results", cl)
}

func pad32(s string) []byte {
	b := make([]byte, 32)
	copy(b, s)
	return b
}

func realWorld(w *vtrace.Writer, rng *rand.Rand, wi int, sites, codes map[string]int) (int, int, int) {
	store := map[string]map[string][]byte{}
	codeOf := map[string][]byte{} // deployed contract address -> code (the base contract's address)
	nonce, epoch := uint64(10), uint32(1)
	hook := &mock.BlockChainHookStub{
		GetStorageDataCalled: func(address []byte, index []byte) ([]byte, error) {
			return store[string(address)][string(index)], nil
		},
		CurrentNonceCalled: func() uint64 { return nonce },
		CurrentRoundCalled: func() uint64 { return nonce },
		CurrentEpochCalled: func() uint32 { return epoch },
		GetCodeCalled: func(account vmcommon.UserAccountHandler) []byte {
			return codeOf[string(account.AddressBytes())]
		},
	}
	users := [][]byte{pad32("user1"), pad32("user2"), pad32("user3")}
	names := map[string]string{
		string(vm.ValidatorSCAddress): "validator", string(vm.StakingSCAddress): "staking",
		string(vm.EndOfEpochAddress): "endOfEpoch", string(vm.JailingAddress): "jailing",
		string(vm.DelegationManagerSCAddress): "delegationManager",
	}
	for i, u := range users {
		names[string(u)] = fmt.Sprintf("user%d", i+1)
	}
	// validator statistics as the staking contract sees them (IsValidator / CanUnJail): set by the driver
	peerList := map[string]string{}
	peers := &testscommon.AccountsStub{GetExistingAccountCalled: func(address []byte) (vmcommon.AccountHandler, error) {
		l, ok := peerList[string(address)]
		if !ok {
			return nil, fmt.Errorf("no peer account")
		}
		return &processMock.PeerAccountHandlerMock{
			GetListCalled:       func() string { return l },
			GetTempRatingCalled: func() uint32 { return 50 },
		}, nil
	}}
	r := newRecEEI(w, hook, store, names, peers)

	minNodes := uint64(1 + rng.Intn(3))
	maxNodes := uint64(1 + rng.Intn(3))
	if maxNodes < minNodes {
		maxNodes = minNodes // the constructor refuses max < min
	}
	flag := func() uint32 { // feature enabled from the start, or never
		if rng.Intn(4) == 0 {
			return 1000000
		}
		return 0
	}
	ee := config.EnableEpochs{
		StakeEnableEpoch: 0, StakingV2EnableEpoch: flag(), DoubleKeyProtectionEnableEpoch: flag(),
		CorrectLastUnjailedEnableEpoch: flag(), UnbondTokensV2EnableEpoch: flag(), SaveJailedAlwaysEnableEpoch: flag(),
		ValidatorToDelegationEnableEpoch: 1000000, WaitingListFixEnableEpoch: flag(), SwitchJailWaitingEnableEpoch: 0,
		BelowSignedThresholdEnableEpoch: 0, DelegationManagerEnableEpoch: 0, DelegationSmartContractEnableEpoch: 0,
	}
	sconf := config.StakingSystemSCConfig{
		GenesisNodePrice: "1000", UnJailValue: "10", MinStepValue: "10", MinStakeValue: "1", UnBondPeriod: uint64(rng.Intn(3)),
		UnBondPeriodInEpochs: uint32(rng.Intn(2)), NumRoundsWithoutBleed: 1, MaximumPercentageToBleed: 1, BleedPercentagePerRound: 1,
		MaxNumberOfNodesForStake: maxNodes, ActivateBLSPubKeyMessageVerification: false, MinUnstakeTokensValue: "1",
	}
	marsh := &marshal.GogoProtoMarshalizer{}
	staking, err := systemSmartContracts.NewStakingSmartContract(systemSmartContracts.ArgsNewStakingSmartContract{
		StakingSCConfig: sconf, MinNumNodes: minNodes, Eei: r, StakingAccessAddr: vm.ValidatorSCAddress,
		JailAccessAddr: vm.JailingAddress, EndOfEpochAccessAddr: vm.EndOfEpochAddress, Marshalizer: marsh,
		EpochNotifier: &mock.EpochNotifierStub{}, EpochConfig: config.EpochConfig{EnableEpochs: ee},
	})
	if err != nil {
		vtrace.Broken("NewStakingSmartContract: " + err.Error())
		return 0, 0, 0
	}
	validator, err := systemSmartContracts.NewValidatorSmartContract(systemSmartContracts.ArgsValidatorSmartContract{
		StakingSCConfig: sconf, GenesisTotalSupply: big.NewInt(100000000), Eei: r, SigVerifier: &mock.MessageSignVerifierMock{},
		StakingSCAddress: vm.StakingSCAddress, ValidatorSCAddress: vm.ValidatorSCAddress, Marshalizer: marsh,
		EpochNotifier: &mock.EpochNotifierStub{}, EndOfEpochAddress: vm.EndOfEpochAddress, MinDeposit: "0",
		DelegationMgrSCAddress: vm.DelegationManagerSCAddress, GovernanceSCAddress: vm.GovernanceSCAddress,
		DelegationMgrEnableEpoch: 0, EpochConfig: config.EpochConfig{EnableEpochs: ee},
		ShardCoordinator: &mock.ShardCoordinatorStub{},
	})
	if err != nil {
		vtrace.Broken("NewValidatorSmartContract: " + err.Error())
		return 0, 0, 0
	}
	contracts := map[string]vm.SystemSmartContract{string(vm.StakingSCAddress): staking, string(vm.ValidatorSCAddress): validator}
	_ = r.ContextHandler.SetSystemSCContainer(&recContainer{r: r, get: func(key []byte) (vm.SystemSmartContract, error) {
		if c, ok := contracts[string(key)]; ok {
			return c, nil
		}
		return nil, vm.ErrUnknownSystemSmartContract
	}})

	txs := 0
	var tx txFunc = func(top []byte, caller []byte, fn string, value int64, args ...[]byte) (vmcommon.ReturnCode, *vmcommon.VMOutput) {
		nonce++
		c, ok := contracts[string(top)]
		if !ok {
			c, ok = contracts[string(codeOf[string(top)])]
		}
		if !ok {
			return vmcommon.ContractNotFound, nil
		}
		r.begin(top, fn, big.NewInt(value))
		in := &vmcommon.ContractCallInput{
			VMInput:       vmcommon.VMInput{CallerAddr: caller, Arguments: args, CallValue: big.NewInt(value), GasProvided: 1 << 40},
			RecipientAddr: top, Function: fn,
		}
		code := c.Execute(in)
		outp := r.ContextHandler.CreateVMOutput()
		if code == vmcommon.Ok {
			r.commit(outp) // the node applies the output of a successful transaction only
			for addr, oa := range outp.OutputAccounts {
				if len(oa.Code) > 0 {
					codeOf[addr] = oa.Code
					if _, named := names[addr]; !named {
						names[addr] = fmt.Sprintf("delegation%d", len(codeOf))
					}
				}
			}
		}
		txs++
		nm := names[string(top)]
		if len(codeOf[string(top)]) > 0 {
			nm = "delegation"
		}
		codes[fmt.Sprintf("%s.%s=%s", nm, fn, code)]++
		if code != vmcommon.Ok && os.Getenv("VH_DEBUG") != "" {
			codes[fmt.Sprintf("  msg %s.%s: %s", nm, fn, outp.ReturnMessage)]++
		}
		return code, outp
	}
	var dl *delegLayer
	if wi%2 == 1 {
		dl, err = newDelegLayer(r, contracts, names, sconf, ee, marsh)
		if err != nil {
			vtrace.Broken(err.Error())
			return 0, 0, 0
		}
		dl.init(tx)
	}
	tx(vm.StakingSCAddress, pad32("genesis"), "_init", 0)
	tx(vm.ValidatorSCAddress, pad32("genesis"), "_init", 0)

	key := func(u, i int) []byte { return []byte(fmt.Sprintf("bls-u%d-k%d", u+1, i+1)) }
	someKeys := func(u int) [][]byte {
		var ks [][]byte
		for i := 0; i < 3; i++ {
			if rng.Intn(2) == 0 {
				ks = append(ks, key(u, i))
			}
		}
		if len(ks) == 0 {
			ks = append(ks, key(u, rng.Intn(3)))
		}
		if rng.Intn(12) == 0 {
			ks = append(ks, key((u+1)%3, 0)) // somebody else's key
		}
		return ks
	}
	anyKey := func() []byte { return key(rng.Intn(3), rng.Intn(3)) }
	num := func(n int) []byte { return big.NewInt(int64(n)).Bytes() }

	steps := 60 + rng.Intn(40)
	for s := 0; s < steps; s++ {
		u := rng.Intn(3)
		if rng.Intn(8) == 0 {
			epoch++
		}
		if dl != nil && rng.Intn(2) == 0 {
			dl.step(tx, rng, users)
			if r.broken != "" {
				vtrace.Broken(r.broken)
				break
			}
			continue
		}
		switch x := rng.Intn(100); {
		case x < 22: // stake n nodes (value = n * node price, sometimes more = top-up)
			ks := someKeys(u)
			args := [][]byte{num(len(ks))}
			for _, k := range ks {
				args = append(args, k, []byte("signed"))
			}
			v := int64(1000 * len(ks))
			if rng.Intn(4) == 0 {
				v += int64(10 * rng.Intn(50))
			}
			if rng.Intn(10) == 0 {
				v -= 500
			}
			tx(vm.ValidatorSCAddress, users[u], "stake", v, args...)
		case x < 43:
			fn := "unStake"
			if x >= 36 {
				fn = "unStakeNodes"
			}
			ks := someKeys(u)
			code, _ := tx(vm.ValidatorSCAddress, users[u], fn, 0, ks...)
			if code == vmcommon.Ok && rng.Intn(2) == 0 {
				// follow-up that reaches the late checks of staking.unBond (period, minimum, still a validator)
				switch rng.Intn(4) {
				case 0:
					tx(vm.StakingSCAddress, vm.EndOfEpochAddress, "updateConfigMinNodes", 0, num(3+rng.Intn(3)))
				case 1:
					peerList[string(ks[0])] = "eligible"
				case 2:
					nonce += 3
				}
				fb := "unBond"
				if rng.Intn(3) == 0 {
					fb = "unBondNodes"
				}
				tx(vm.ValidatorSCAddress, users[u], fb, 0, ks...)
			}
		case x < 53:
			tx(vm.ValidatorSCAddress, users[u], "unBond", 0, someKeys(u)...)
		case x < 58:
			tx(vm.ValidatorSCAddress, users[u], "unBondNodes", 0, someKeys(u)...)
		case x < 66:
			ks := someKeys(u)
			v := int64(10 * len(ks))
			if rng.Intn(8) == 0 {
				v += 10
			}
			tx(vm.ValidatorSCAddress, users[u], "unJail", v, ks...)
		case x < 70:
			tx(vm.ValidatorSCAddress, users[u], "reStakeUnStakedNodes", 0, someKeys(u)...)
		case x < 73:
			tx(vm.ValidatorSCAddress, users[u], "unStakeTokens", 0, num(10*(1+rng.Intn(100))))
		case x < 76:
			tx(vm.ValidatorSCAddress, users[u], "unBondTokens", 0)
		case x < 78:
			tx(vm.ValidatorSCAddress, users[u], "claim", 0)
		case x < 80:
			tx(vm.ValidatorSCAddress, users[u], "changeRewardAddress", 0, pad32(fmt.Sprintf("reward%d", rng.Intn(2))))
		case x < 84:
			tx(vm.StakingSCAddress, vm.JailingAddress, "jail", 0, anyKey())
		case x < 87:
			tx(vm.StakingSCAddress, vm.EndOfEpochAddress, "switchJailedWithWaiting", 0, anyKey())
		case x < 91:
			tx(vm.StakingSCAddress, vm.EndOfEpochAddress, "unStakeAtEndOfEpoch", 0, anyKey())
		case x < 93:
			tx(vm.StakingSCAddress, vm.EndOfEpochAddress, "stakeNodesFromQueue", 0, num(1+rng.Intn(2)))
		case x < 96:
			tx(vm.StakingSCAddress, vm.EndOfEpochAddress, "updateConfigMinNodes", 0, num(1+rng.Intn(5)))
		case x < 97:
			tx(vm.StakingSCAddress, vm.EndOfEpochAddress, "updateConfigMaxNodes", 0, num(1+rng.Intn(5)))
		default:
			// the validator statistics change (no transaction): a key becomes eligible / jailed / unknown again
			k := string(anyKey())
			switch rng.Intn(4) {
			case 0:
				peerList[k] = "eligible"
			case 1:
				peerList[k] = "jailed"
			case 2:
				peerList[k] = "inactive"
			default:
				delete(peerList, k)
			}
		}
		if r.broken != "" {
			vtrace.Broken(r.broken)
			break
		}
	}
	for s, n := range r.sites {
		sites[s] += n
	}
	_ = hex.EncodeToString
	return txs, r.events, r.fails
}
