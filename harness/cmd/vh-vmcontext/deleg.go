package main

import (
	"fmt"
	"math/big"
	"math/rand"

	"github.com/ElrondNetwork/elrond-go/config"
	"github.com/ElrondNetwork/elrond-go/marshal"
	"github.com/ElrondNetwork/elrond-go/vm"
	"github.com/ElrondNetwork/elrond-go/vm/mock"
	"github.com/ElrondNetwork/elrond-go/vm/systemSmartContracts"
	vmcommon "github.com/ElrondNetwork/elrond-vm-common"
)

// The delegation layer of a real-contract world: the REAL delegationManager deploys REAL delegation contracts
// through vmContext.DeploySystemSC (whose init stakes the owner's funds on the validator contract: a nested
// ExecuteOnDestContext inside a deploy), and the delegation contracts call the validator contract, which calls the
// staking contract: nesting depth 2 with real code on every level, and calls that carry a value.

type txFunc func(top []byte, caller []byte, fn string, value int64, args ...[]byte) (vmcommon.ReturnCode, *vmcommon.VMOutput)

type delegLayer struct {
	contracts map[string]vm.SystemSmartContract
	names     map[string]string
	addrs     [][]byte                // deployed delegation contracts
	owner     map[string][]byte       // contract -> owner
	added     map[string]map[int]bool // contract -> indexes of the BLS keys added so far
}

func newDelegLayer(r *recEEI, contracts map[string]vm.SystemSmartContract, names map[string]string,
	sconf config.StakingSystemSCConfig, ee config.EnableEpochs, marsh marshal.Marshalizer) (*delegLayer, error) {
	dconf := config.DelegationSystemSCConfig{MinServiceFee: 0, MaxServiceFee: 10000}
	deleg, err := systemSmartContracts.NewDelegationSystemSC(systemSmartContracts.ArgsNewDelegation{
		DelegationSCConfig: dconf, EpochConfig: config.EpochConfig{EnableEpochs: ee}, StakingSCConfig: sconf, Eei: r,
		SigVerifier: &mock.MessageSignVerifierMock{}, DelegationMgrSCAddress: vm.DelegationManagerSCAddress,
		StakingSCAddress: vm.StakingSCAddress, ValidatorSCAddress: vm.ValidatorSCAddress, EndOfEpochAddress: vm.EndOfEpochAddress,
		GovernanceSCAddress: vm.GovernanceSCAddress, Marshalizer: marsh, EpochNotifier: &mock.EpochNotifierStub{},
	})
	if err != nil {
		return nil, fmt.Errorf("NewDelegationSystemSC: %v", err)
	}
	mgr, err := systemSmartContracts.NewDelegationManagerSystemSC(systemSmartContracts.ArgsNewDelegationManager{
		DelegationMgrSCConfig: config.DelegationManagerSystemSCConfig{MinCreationDeposit: "100", MinStakeAmount: "1",
			ConfigChangeAddress: "3132333435363738393031323334353637383930313233343536373839303132"},
		DelegationSCConfig: dconf, EpochConfig: config.EpochConfig{EnableEpochs: ee}, Eei: r,
		DelegationMgrSCAddress: vm.DelegationManagerSCAddress, StakingSCAddress: vm.StakingSCAddress,
		ValidatorSCAddress: vm.ValidatorSCAddress, ConfigChangeAddress: []byte("12345678901234567890123456789012"),
		Marshalizer: marsh, EpochNotifier: &mock.EpochNotifierStub{},
	})
	if err != nil {
		return nil, fmt.Errorf("NewDelegationManagerSystemSC: %v", err)
	}
	contracts[string(vm.FirstDelegationSCAddress)] = deleg
	contracts[string(vm.DelegationManagerSCAddress)] = mgr
	return &delegLayer{contracts: contracts, names: names, owner: map[string][]byte{}, added: map[string]map[int]bool{}}, nil
}

func (d *delegLayer) init(tx txFunc) {
	tx(vm.DelegationManagerSCAddress, pad32("genesis"), "_init", 0)
}

// step performs one random delegation-layer transaction
func (d *delegLayer) step(tx txFunc, rng *rand.Rand, users [][]byte) {
	num := func(n int) []byte { return big.NewInt(int64(n)).Bytes() }
	u := rng.Intn(len(users))
	if len(d.addrs) == 0 || (len(d.addrs) < 2 && rng.Intn(6) == 0) {
		v := int64(1000 + 250*rng.Intn(12))
		if rng.Intn(6) == 0 {
			v = 50 // below the minimum deposit
		}
		fee := 100
		if rng.Intn(8) == 0 {
			fee = 20000 // out of bounds: the init function fails inside DeploySystemSC
		}
		code, out := tx(vm.DelegationManagerSCAddress, users[u], "createNewDelegationContract", v, num(0), num(fee))
		if code == vmcommon.Ok && out != nil && len(out.ReturnData) > 0 {
			a := append([]byte{}, out.ReturnData[len(out.ReturnData)-1]...)
			d.addrs = append(d.addrs, a)
			d.owner[string(a)] = users[u]
		}
		return
	}
	c := d.addrs[rng.Intn(len(d.addrs))]
	ci := 0
	for i := range d.addrs {
		if string(d.addrs[i]) == string(c) {
			ci = i
		}
	}
	owner := d.owner[string(c)]
	key := func(i int) []byte { return []byte(fmt.Sprintf("bls-d%d-k%d", ci+1, i+1)) }
	if d.added[string(c)] == nil {
		d.added[string(c)] = map[int]bool{}
	}
	added := d.added[string(c)]
	// mostly keys the contract knows (delegation refuses a call naming an unknown key), sometimes any key
	some := func() [][]byte {
		var ks [][]byte
		noise := rng.Intn(8) == 0
		if !noise && rng.Intn(5) < 3 { // a single known key: the per-function key lists rarely match larger sets
			var known []int
			for i := 0; i < 4; i++ {
				if added[i] {
					known = append(known, i)
				}
			}
			if len(known) > 0 {
				return [][]byte{key(known[rng.Intn(len(known))])}
			}
		}
		for i := 0; i < 4; i++ {
			if (added[i] || noise) && rng.Intn(2) == 0 {
				ks = append(ks, key(i))
			}
		}
		if len(ks) == 0 {
			for i := 0; i < 4; i++ {
				if added[i] {
					return [][]byte{key(i)}
				}
			}
			ks = append(ks, key(rng.Intn(4)))
		}
		return ks
	}
	who := owner
	if rng.Intn(10) == 0 {
		who = users[u]
	}
	x := rng.Intn(100)
	if len(added) == 0 && rng.Intn(3) > 0 {
		x = 0 // nothing can be staked before nodes are added
	}
	switch {
	case x < 14:
		var args [][]byte
		var idx []int
		for i := 0; i < 4; i++ {
			if (!added[i] && rng.Intn(2) == 0) || rng.Intn(40) == 0 {
				args = append(args, key(i), []byte("signed"))
				idx = append(idx, i)
			}
		}
		if len(idx) == 0 {
			args, idx = [][]byte{key(3), []byte("signed")}, []int{3}
		}
		if code, _ := tx(c, who, "addNodes", 0, args...); code == vmcommon.Ok {
			for _, i := range idx {
				added[i] = true
			}
		}
	case x < 34:
		tx(c, who, "stakeNodes", 0, some()...)
	case x < 46:
		tx(c, who, "unStakeNodes", 0, some()...)
	case x < 54:
		tx(c, who, "unBondNodes", 0, some()...)
	case x < 62:
		ks := some()
		tx(c, users[u], "unJailNodes", int64(10*len(ks)), ks...)
	case x < 66:
		tx(c, who, "reStakeUnStakedNodes", 0, some()...)
	case x < 84:
		tx(c, users[u], "delegate", int64(50*(1+rng.Intn(40))))
	case x < 92:
		tx(c, users[u], "unDelegate", 0, num(10*(1+rng.Intn(100))))
	case x < 97:
		tx(c, users[u], "withdraw", 0)
	default:
		tx(c, who, "removeNodes", 0, some()...)
	}
}
