// vh-bloom binds specs/Bloom to storage/bloom.Bloom (property C31).
//
//	vh-bloom replay <behaviours.ndjson> <suspects.ndjson>   TLC behaviours -> real filter built with stub hashers that
//	                                                         realise the bit positions chosen by TLC; compares answers + bits
//	vh-bloom record <seed> <traces> <len> <out.ndjson>      random histories on real filters (real hashers, real sizes)
//	vh-bloom race <scenarios.ndjson> <iters>                TLC-enumerated concurrent scenarios under the race detector
//	vh-bloom batch <iters> <file> <from> <to>               (child of `race`)
package main

import (
	"encoding/binary"
	"fmt"
	"math/rand"
	"os"
	"regexp"
	"sort"
	"strconv"

	"github.com/ElrondNetwork/elrond-go/hashing"
	"github.com/ElrondNetwork/elrond-go/hashing/blake2b"
	"github.com/ElrondNetwork/elrond-go/hashing/fnv"
	"github.com/ElrondNetwork/elrond-go/hashing/keccak"
	"github.com/ElrondNetwork/elrond-go/hashing/sha256"
	"github.com/ElrondNetwork/elrond-go/storage/bloom"
	"verif/harness/families/stores/peek"
	"verif/harness/families/stores/racerun"
	"verif/harness/internal/vtrace"
)

type M = vtrace.M

// stubHasher realises "hash function j": key -> bit position chosen by TLC.
type stubHasher struct {
	j   int
	pos map[string][]int
}

func (s *stubHasher) Compute(k string) []byte {
	b := make([]byte, 8)
	p, ok := s.pos[k]
	if ok && s.j < len(p) {
		binary.BigEndian.PutUint64(b, uint64(p[s.j]))
	}
	return b
}
func (s *stubHasher) Size() int            { return 8 }
func (s *stubHasher) IsInterfaceNil() bool { return s == nil }

// bitsOf projects the filter's bit set without touching it (reflection on the unexported byte slice).
func bitsOf(b *bloom.Bloom) ([]int, bool) {
	f, ok := peek.Path(b, "filter")
	if !ok || f.Kind().String() != "slice" || f.Type().Elem().Kind().String() != "uint8" {
		return nil, false
	}
	raw := f.Bytes()
	res := make([]int, 0)
	for i, by := range raw {
		for bit := 0; bit < 8; bit++ {
			if by&(1<<uint(bit)) != 0 {
				res = append(res, i*8+bit)
			}
		}
	}
	return res, true
}

func apply(b *bloom.Bloom, a string, in M) M {
	switch a {
	case "Add":
		b.Add([]byte(vtrace.Str(in["k"])))
		return M{"x": 0}
	case "MayContain":
		return M{"r": b.MayContain([]byte(vtrace.Str(in["k"])))}
	case "Clear":
		b.Clear()
		return M{"x": 0}
	}
	panic("unknown action " + a)
}

func proj(b *bloom.Bloom) M {
	if bits, ok := bitsOf(b); ok {
		return M{"bits": bits}
	}
	return M{}
}

func sameInts(pred interface{}, got []int) bool {
	p := vtrace.SortedInts(vtrace.Ints(pred))
	g := vtrace.SortedInts(got)
	return vtrace.EqInts(p, g)
}

func posMap(v interface{}) map[string][]int {
	res := map[string][]int{}
	if m, ok := v.(map[string]interface{}); ok {
		for k, x := range m {
			res[k] = vtrace.Ints(x)
		}
	}
	return res
}

func newFromRecord(in M) (*bloom.Bloom, error) {
	nh := vtrace.Int(in["nh"])
	pm := posMap(in["pos"])
	hs := make([]hashing.Hasher, nh)
	for j := 0; j < nh; j++ {
		hs[j] = &stubHasher{j: j, pos: pm}
	}
	return bloom.NewFilter(uint(vtrace.Int(in["nbytes"])), hs)
}

func replay(path, suspects string) {
	bs, err := vtrace.ReadBehaviours(path)
	if err != nil {
		vtrace.Broken(err.Error())
		return
	}
	sw, err := vtrace.NewWriter(suspects)
	if err != nil {
		vtrace.Broken(err.Error())
		return
	}
	distinct := vtrace.NewDistinct()
	steps, mism, peeked := 0, 0, 0
	for bi, b := range bs {
		var f *bloom.Bloom
		type ev struct {
			a           string
			in, out, st M
		}
		var log []ev
		bad := -1
		for si, st := range b {
			if st.A == "New" {
				f, err = newFromRecord(st.In)
				if err != nil {
					vtrace.Broken(fmt.Sprintf("NewFilter rejected a configuration the specification allows: %v %v", st.In, err))
					return
				}
				log = append(log, ev{"New", st.In, M{"x": 0}, proj(f)})
				continue
			}
			got := apply(f, st.A, st.In)
			steps++
			p := proj(f)
			log = append(log, ev{st.A, st.In, got, p})
			if bad >= 0 {
				continue
			}
			ok := true
			if r, has := got["r"]; has && r != st.Out["r"] {
				ok = false
			}
			if bits, has := p["bits"]; has {
				peeked++
				if !sameInts(st.St["bits"], bits.([]int)) {
					ok = false
				}
			}
			if !ok {
				bad = si
			}
		}
		if bad >= 0 {
			mism++
			// the observed run goes to TLC (observation mode of Trace_Bloom): the C31 invariants decide
			for i, e := range log {
				if i == 0 {
					sw.NewTraceWith(e.a, e.in, e.out, e.st)
				} else {
					sw.Emit(e.a, e.in, e.out, e.st)
				}
			}
			if mism <= 3 {
				vtrace.Drift("C31", fmt.Sprintf("behaviour %d step %d (%s %v): real filter answered %v / bits %v, specification predicted %v / %v",
					bi, bad, b[bad].A, b[bad].In, log[bad].out, log[bad].st, b[bad].Out, b[bad].St), nil)
			}
		}
		if len(b) > 1 {
			last := b[len(b)-1]
			distinct.Add(fmt.Sprint(b[0].In, b[len(b)-2].St, last.A, last.In))
		}
		if bi < 2 {
			vtrace.Sample("C31", b)
		}
	}
	if err := sw.Close(); err != nil {
		vtrace.Broken(err.Error())
	}
	vtrace.Stat("behaviours", len(bs))
	vtrace.Stat("steps", steps)
	vtrace.Stat("distinct_transitions", distinct.Len())
	vtrace.Stat("mismatching_behaviours", mism)
	vtrace.Stat("suspect_events", sw.N)
	vtrace.Stat("bit_projections", peeked)
}

func realHashers(rng *rand.Rand) []hashing.Hasher {
	all := []hashing.Hasher{keccak.NewKeccak(), blake2b.NewBlake2b(), fnv.NewFnv(), sha256.NewSha256()}
	rng.Shuffle(len(all), func(i, j int) { all[i], all[j] = all[j], all[i] })
	return all[:1+rng.Intn(len(all))]
}

func record(seed int64, traces, n int, out string) {
	w, err := vtrace.NewWriter(out)
	if err != nil {
		vtrace.Broken(err.Error())
		return
	}
	rng := rand.New(rand.NewSource(seed))
	sizes := []int{5, 6, 8, 16, 64, 256, 2048}
	distinct := vtrace.NewDistinct()
	for t := 0; t < traces; t++ {
		var f *bloom.Bloom
		var hs []hashing.Hasher
		nbytes := sizes[rng.Intn(len(sizes))]
		if t%5 == 4 {
			f = bloom.NewDefaultFilter()
			hs = []hashing.Hasher{keccak.NewKeccak(), blake2b.NewBlake2b(), fnv.NewFnv()}
			nbytes = 2048
		} else {
			hs = realHashers(rng)
			f, err = bloom.NewFilter(uint(nbytes), hs)
			if err != nil {
				vtrace.Broken(err.Error())
				return
			}
		}
		// key universe of this trace; the bit positions of each key are learned from the real code:
		// a fresh probe filter of the same shape after a single Add(k)
		nk := 3 + rng.Intn(12)
		keys := make([]string, nk)
		pos := M{}
		for i := range keys {
			kb := make([]byte, 1+rng.Intn(40))
			rng.Read(kb)
			keys[i] = fmt.Sprintf("k%d_%x", i, kb)
			probe, _ := bloom.NewFilter(uint(nbytes), hs)
			probe.Add([]byte(keys[i]))
			pb, ok := bitsOf(probe)
			if !ok {
				vtrace.Broken("cannot project the filter bytes (field `filter` of bloom.Bloom): the record stage needs it to learn bit positions")
				return
			}
			pos[keys[i]] = pb
		}
		w.NewTraceWith("New", M{"nbytes": nbytes, "nh": len(hs), "pos": pos}, M{"x": 0}, proj(f))
		for i := 0; i < n; i++ {
			k := keys[rng.Intn(nk)]
			var a string
			in := M{"k": k}
			switch r := rng.Intn(100); {
			case r < 40:
				a = "Add"
			case r < 96:
				a = "MayContain"
			default:
				a, in = "Clear", M{"x": 0}
			}
			got := apply(f, a, in)
			w.Emit(a, in, got, proj(f))
			distinct.Add(fmt.Sprint(nbytes, len(hs), a, k))
		}
	}
	if err := w.Close(); err != nil {
		vtrace.Broken(err.Error())
	}
	vtrace.Stat("events", w.N)
	vtrace.Stat("traces", traces)
	vtrace.Stat("distinct", distinct.Len())
}

// ---- race half

var methodRe = regexp.MustCompile(`storage/bloom\.\(\*Bloom\)\.(\w+)$`)

func describe(op string) string {
	switch op {
	case "Add:hot":
		return "Add(shared key)"
	case "Add:fresh":
		return "Add(fresh key per call)"
	case "MayContain:hot":
		return "MayContain(shared key)"
	case "MayContain:fresh":
		return "MayContain(fresh key per call)"
	}
	return op + "()"
}

// setup creates a fresh filter for one scenario and the factory of goroutine bodies
func setup(_ int) (interface{}, func(op string, g int) func(i int)) {
	// small filter so that different keys share bytes (the detector works per byte)
	f, err := bloom.NewFilter(6, []hashing.Hasher{keccak.NewKeccak(), fnv.NewFnv()})
	if err != nil {
		panic(err)
	}
	f.Add([]byte("hot"))
	return f, func(op string, g int) func(i int) {
		fresh := func(i int) []byte { return []byte(fmt.Sprintf("g%d-%d", g, i)) }
		switch op {
		case "Add:hot":
			return func(i int) { f.Add([]byte("hot")) }
		case "Add:fresh":
			return func(i int) { f.Add(fresh(i)) }
		case "MayContain:hot":
			return func(i int) { _ = f.MayContain([]byte("hot")) }
		case "MayContain:fresh":
			return func(i int) { _ = f.MayContain(fresh(i)) }
		case "Clear":
			return func(i int) { f.Clear() }
		case "IsInterfaceNil":
			return func(i int) { _ = f.IsInterfaceNil() }
		}
		return nil
	}
}

func main() {
	vtrace.Quiet()
	if len(os.Args) < 2 {
		fmt.Fprintln(os.Stderr, "usage: vh-bloom replay|record|race|one ...")
		os.Exit(2)
	}
	switch os.Args[1] {
	case "replay":
		replay(os.Args[2], os.Args[3])
	case "record":
		seed, _ := strconv.ParseInt(os.Args[2], 10, 64)
		traces, _ := strconv.Atoi(os.Args[3])
		n, _ := strconv.Atoi(os.Args[4])
		record(seed, traces, n, os.Args[5])
	case "race":
		sc, err := racerun.ReadScenarios(os.Args[2])
		if err != nil {
			vtrace.Broken(err.Error())
			return
		}
		iters, _ := strconv.Atoi(os.Args[3])
		sort.SliceStable(sc, func(i, j int) bool { return len(sc[i].Ops) < len(sc[j].Ops) })
		racerun.Drive("C31", os.Args[0], sc, iters, methodRe, describe)
	case "batch":
		iters, _ := strconv.Atoi(os.Args[2])
		from, _ := strconv.Atoi(os.Args[4])
		to, _ := strconv.Atoi(os.Args[5])
		racerun.ChildBatch(os.Args[3], from, to, iters, setup)
	default:
		os.Exit(2)
	}
}
