// vh-bloom binds specs/Bloom to storage/bloom.Bloom (property C31).
//
//	vh-bloom replay <behaviours.ndjson> <suspects.ndjson>   TLC behaviours -> real filter built with stub hashers that
//	                                                         realise the bit positions chosen by TLC; compares answers + bits
//	vh-bloom record <seed> <traces> <len> <out.ndjson>      random histories on real filters (real hashers, real sizes)
//	vh-bloom conc <scenarios.ndjson> <rounds> <seed> <out>  concurrent no-false-negative rounds (scenarios from BloomAtomicity.tla)
//	vh-bloom race <scenarios.ndjson> <iters>                TLC-enumerated concurrent scenarios under the race detector
//	vh-bloom batch <iters> <file> <from> <to>               (child of `race`)
package main

import (
	"encoding/binary"
	"fmt"
	"math/rand"
	"os"
	"regexp"
	"runtime"
	"sort"
	"strconv"
	"sync"
	"sync/atomic"

	"github.com/ElrondNetwork/elrond-go/hashing"
	"github.com/ElrondNetwork/elrond-go/hashing/blake2b"
	"github.com/ElrondNetwork/elrond-go/hashing/fnv"
	"github.com/ElrondNetwork/elrond-go/hashing/keccak"
	"github.com/ElrondNetwork/elrond-go/hashing/sha256"
	"github.com/ElrondNetwork/elrond-go/storage/bloom"
	"verif/harness/families/stores/peek"
	"verif/harness/families/stores/racerun"
	"verif/harness/internal/vtrace"
)

type M = vtrace.M

// stubHasher realises "hash function j": key -> bit position chosen by TLC.
type stubHasher struct {
	j   int
	pos map[string][]int
}

func (s *stubHasher) Compute(k string) []byte {
	b := make([]byte, 8)
	p, ok := s.pos[k]
	if ok && s.j < len(p) {
		binary.BigEndian.PutUint64(b, uint64(p[s.j]))
	}
	return b
}
func (s *stubHasher) Size() int            { return 8 }
func (s *stubHasher) IsInterfaceNil() bool { return s == nil }

// bitsOf projects the filter's bit set without touching it (reflection on the unexported byte slice).
func bitsOf(b *bloom.Bloom) ([]int, bool) {
	f, ok := peek.Path(b, "filter")
	if !ok || f.Kind().String() != "slice" || f.Type().Elem().Kind().String() != "uint8" {
		return nil, false
	}
	raw := f.Bytes()
	res := make([]int, 0)
	for i, by := range raw {
		for bit := 0; bit < 8; bit++ {
			if by&(1<<uint(bit)) != 0 {
				res = append(res, i*8+bit)
			}
		}
	}
	return res, true
}

func apply(b *bloom.Bloom, a string, in M) M {
	switch a {
	case "Add":
		b.Add([]byte(vtrace.Str(in["k"])))
		return M{"x": 0}
	case "MayContain":
		return M{"r": b.MayContain([]byte(vtrace.Str(in["k"])))}
	case "Clear":
		b.Clear()
		return M{"x": 0}
	}
	panic("unknown action " + a)
}

func proj(b *bloom.Bloom) M {
	if bits, ok := bitsOf(b); ok {
		return M{"bits": bits}
	}
	return M{}
}

func sameInts(pred interface{}, got []int) bool {
	p := vtrace.SortedInts(vtrace.Ints(pred))
	g := vtrace.SortedInts(got)
	return vtrace.EqInts(p, g)
}

func posMap(v interface{}) map[string][]int {
	res := map[string][]int{}
	if m, ok := v.(map[string]interface{}); ok {
		for k, x := range m {
			res[k] = vtrace.Ints(x)
		}
	}
	return res
}

func newFromRecord(in M) (*bloom.Bloom, error) {
	nh := vtrace.Int(in["nh"])
	pm := posMap(in["pos"])
	hs := make([]hashing.Hasher, nh)
	for j := 0; j < nh; j++ {
		hs[j] = &stubHasher{j: j, pos: pm}
	}
	return bloom.NewFilter(uint(vtrace.Int(in["nbytes"])), hs)
}

func replay(path, suspects string) {
	bs, err := vtrace.ReadBehaviours(path)
	if err != nil {
		vtrace.Broken(err.Error())
		return
	}
	sw, err := vtrace.NewWriter(suspects)
	if err != nil {
		vtrace.Broken(err.Error())
		return
	}
	distinct := vtrace.NewDistinct()
	steps, mism, peeked := 0, 0, 0
	for bi, b := range bs {
		var f *bloom.Bloom
		type ev struct {
			a           string
			in, out, st M
		}
		var log []ev
		bad := -1
		for si, st := range b {
			if st.A == "New" {
				f, err = newFromRecord(st.In)
				if err != nil {
					vtrace.Broken(fmt.Sprintf("NewFilter rejected a configuration the specification allows: %v %v", st.In, err))
					return
				}
				log = append(log, ev{"New", st.In, M{"x": 0}, proj(f)})
				continue
			}
			got := apply(f, st.A, st.In)
			steps++
			p := proj(f)
			log = append(log, ev{st.A, st.In, got, p})
			if bad >= 0 {
				continue
			}
			ok := true
			if r, has := got["r"]; has && r != st.Out["r"] {
				ok = false
			}
			if bits, has := p["bits"]; has {
				peeked++
				if !sameInts(st.St["bits"], bits.([]int)) {
					ok = false
				}
			}
			if !ok {
				bad = si
			}
		}
		if bad >= 0 {
			mism++
			// the observed run goes to TLC (observation mode of Trace_Bloom): the C31 invariants decide
			for i, e := range log {
				if i == 0 {
					sw.NewTraceWith(e.a, e.in, e.out, e.st)
				} else {
					sw.Emit(e.a, e.in, e.out, e.st)
				}
			}
			if mism <= 3 {
				vtrace.Drift("C31", fmt.Sprintf("behaviour %d step %d (%s %v): real filter answered %v / bits %v, specification predicted %v / %v",
					bi, bad, b[bad].A, b[bad].In, log[bad].out, log[bad].st, b[bad].Out, b[bad].St), nil)
			}
		}
		if len(b) > 1 {
			last := b[len(b)-1]
			distinct.Add(fmt.Sprint(b[0].In, b[len(b)-2].St, last.A, last.In))
		}
		if bi < 2 {
			vtrace.Sample("C31", b)
		}
	}
	if err := sw.Close(); err != nil {
		vtrace.Broken(err.Error())
	}
	vtrace.Stat("behaviours", len(bs))
	vtrace.Stat("steps", steps)
	vtrace.Stat("distinct_transitions", distinct.Len())
	vtrace.Stat("mismatching_behaviours", mism)
	vtrace.Stat("suspect_events", sw.N)
	vtrace.Stat("bit_projections", peeked)
}

func realHashers(rng *rand.Rand) []hashing.Hasher {
	all := []hashing.Hasher{keccak.NewKeccak(), blake2b.NewBlake2b(), fnv.NewFnv(), sha256.NewSha256()}
	rng.Shuffle(len(all), func(i, j int) { all[i], all[j] = all[j], all[i] })
	return all[:1+rng.Intn(len(all))]
}

func record(seed int64, traces, n int, out string) {
	w, err := vtrace.NewWriter(out)
	if err != nil {
		vtrace.Broken(err.Error())
		return
	}
	rng := rand.New(rand.NewSource(seed))
	sizes := []int{5, 6, 8, 16, 64, 256, 2048}
	distinct := vtrace.NewDistinct()
	for t := 0; t < traces; t++ {
		var f *bloom.Bloom
		var hs []hashing.Hasher
		nbytes := sizes[rng.Intn(len(sizes))]
		if t%5 == 4 {
			f = bloom.NewDefaultFilter()
			hs = []hashing.Hasher{keccak.NewKeccak(), blake2b.NewBlake2b(), fnv.NewFnv()}
			nbytes = 2048
		} else {
			hs = realHashers(rng)
			f, err = bloom.NewFilter(uint(nbytes), hs)
			if err != nil {
				vtrace.Broken(err.Error())
				return
			}
		}
		// key universe of this trace; the bit positions of each key are learned from the real code:
		// a fresh probe filter of the same shape after a single Add(k)
		nk := 3 + rng.Intn(12)
		keys := make([]string, nk)
		pos := M{}
		for i := range keys {
			kb := make([]byte, 1+rng.Intn(40))
			rng.Read(kb)
			keys[i] = fmt.Sprintf("k%d_%x", i, kb)
			probe, _ := bloom.NewFilter(uint(nbytes), hs)
			probe.Add([]byte(keys[i]))
			pb, ok := bitsOf(probe)
			if !ok {
				vtrace.Broken("cannot project the filter bytes (field `filter` of bloom.Bloom): the record stage needs it to learn bit positions")
				return
			}
			pos[keys[i]] = pb
		}
		w.NewTraceWith("New", M{"nbytes": nbytes, "nh": len(hs), "pos": pos}, M{"x": 0}, proj(f))
		for i := 0; i < n; i++ {
			k := keys[rng.Intn(nk)]
			var a string
			in := M{"k": k}
			switch r := rng.Intn(100); {
			case r < 40:
				a = "Add"
			case r < 96:
				a = "MayContain"
			default:
				a, in = "Clear", M{"x": 0}
			}
			got := apply(f, a, in)
			w.Emit(a, in, got, proj(f))
			distinct.Add(fmt.Sprint(nbytes, len(hs), a, k))
		}
	}
	if err := w.Close(); err != nil {
		vtrace.Broken(err.Error())
	}
	vtrace.Stat("events", w.N)
	vtrace.Stat("traces", traces)
	vtrace.Stat("distinct", distinct.Len())
}

// ---- concurrent no-false-negative stage (atomicity of Add's read-modify-write)

type ans struct {
	K string `json:"k"`
	R bool   `json:"r"`
}

// round releases len(keysPerG) goroutines from a spin barrier; goroutine g adds its own keys one by one and asks
// MayContain for each key right after its Add returned (the others are still adding); after the join every key
// is asked again. Nothing is judged here: the answers and the final bits are logged for TLC.
func round(f *bloom.Bloom, keysPerG [][]string) (inrun, after []ans) {
	n := int32(len(keysPerG))
	var ready int32
	var wg sync.WaitGroup
	res := make([][]ans, len(keysPerG))
	for g := range keysPerG {
		wg.Add(1)
		go func(g int) {
			defer wg.Done()
			atomic.AddInt32(&ready, 1)
			for spins := 0; atomic.LoadInt32(&ready) < n; spins++ {
				if spins%64 == 63 {
					runtime.Gosched()
				}
			}
			for _, k := range keysPerG[g] {
				f.Add([]byte(k))
				res[g] = append(res[g], ans{K: k, R: f.MayContain([]byte(k))})
			}
		}(g)
	}
	wg.Wait()
	inrun, after = []ans{}, []ans{}
	for g := range keysPerG {
		inrun = append(inrun, res[g]...)
		for _, k := range keysPerG[g] {
			after = append(after, ans{K: k, R: f.MayContain([]byte(k))})
		}
	}
	return inrun, after
}

func allTrue(a []ans) bool {
	for _, x := range a {
		if !x.R {
			return false
		}
	}
	return true
}

func conc(path string, rounds int, seed int64, out string) {
	bs, err := vtrace.ReadBehaviours(path)
	if err != nil {
		vtrace.Broken(err.Error())
		return
	}
	w, err := vtrace.NewWriter(out)
	if err != nil {
		vtrace.Broken(err.Error())
		return
	}
	if runtime.GOMAXPROCS(0) < 4 {
		runtime.GOMAXPROCS(4)
	}
	rng := rand.New(rand.NewSource(seed))
	seen := map[string]bool{}
	nRounds, nAdds, nAnswers, suspicious, nScen := 0, 0, 0, 0, 0
	distinct := vtrace.NewDistinct()
	emit := func(nbytes, nh int, pos M, keysPerG [][]string, f *bloom.Bloom) bool {
		inrun, after := round(f, keysPerG)
		bits, ok := bitsOf(f)
		if !ok {
			vtrace.Broken("cannot project the filter bytes (field `filter` of bloom.Bloom)")
			return false
		}
		keys := []string{}
		for _, ks := range keysPerG {
			keys = append(keys, ks...)
		}
		w.Emit("Round", M{"nbytes": nbytes, "nh": nh, "pos": pos, "keys": keys}, M{"inrun": inrun, "after": after}, M{"bits": bits})
		nRounds++
		nAdds += len(keys)
		nAnswers += len(inrun) + len(after)
		return allTrue(inrun) && allTrue(after)
	}
	for _, b := range bs {
		if len(b) == 0 || b[len(b)-1].A != "Concurrent" {
			continue
		}
		in := b[len(b)-1].In
		key := fmt.Sprint(in)
		if seen[key] {
			continue
		}
		seen[key] = true
		nScen++
		n, nbytes := vtrace.Int(in["threads"]), vtrace.Int(in["nbytes"])
		positions := vtrace.Ints(in["pos"])
		labelled, _ := b[len(b)-1].Out["loses_bit_if_split"].(bool)
		r := rounds
		if !labelled {
			r = rounds / 5
		}
		// (a) the placement chosen by TLC, imposed through a stub hasher: goroutine g adds key "g<g>" -> bit positions[g].
		// For the placement in which the goroutines share a byte the same pattern (goroutine g owns bit g of the
		// byte) is repeated on every byte of the filter, so one round holds nbytes collisions instead of one.
		pm := map[string][]int{}
		pos := M{}
		keysPerG := make([][]string, n)
		for g := 0; g < n; g++ {
			k := fmt.Sprintf("g%d", g)
			pm[k] = []int{positions[g]}
			pos[k] = []int{positions[g]}
			keysPerG[g] = []string{k}
			if !labelled {
				continue
			}
			for b := 0; b < nbytes; b++ {
				if b == positions[g]/8 {
					continue
				}
				kb := fmt.Sprintf("g%db%d", g, b)
				p := 8*b + positions[g]%8
				pm[kb] = []int{p}
				pos[kb] = []int{p}
				keysPerG[g] = append(keysPerG[g], kb)
			}
		}
		distinct.Add("stub/" + key)
		for i := 0; i < r; i++ {
			f, ferr := bloom.NewFilter(uint(nbytes), []hashing.Hasher{&stubHasher{j: 0, pos: pm}})
			if ferr != nil {
				vtrace.Broken(ferr.Error())
				return
			}
			if !emit(nbytes, 1, pos, keysPerG, f) {
				suspicious++
				break // TLC judges the logged round; no need to look for a second one in this scenario
			}
		}
		// (b) for the placements in which a split read-modify-write can lose a bit: the same number of goroutines on
		// small real filters (real hashers, 2 fresh keys per goroutine per round, so goroutines collide on bytes)
		if !labelled {
			continue
		}
		for _, sz := range []int{8, 16, 64} {
			hs := []hashing.Hasher{keccak.NewKeccak(), fnv.NewFnv()}
			distinct.Add(fmt.Sprintf("real/%d/%d", n, sz))
			for i := 0; i < r/6; i++ {
				pos := M{}
				keysPerG := make([][]string, n)
				for g := 0; g < n; g++ {
					for j := 0; j < 2; j++ {
						k := fmt.Sprintf("r%d_%d_%x", g, j, rng.Int63())
						probe, _ := bloom.NewFilter(uint(sz), hs)
						probe.Add([]byte(k))
						pb, _ := bitsOf(probe)
						pos[k] = pb
						keysPerG[g] = append(keysPerG[g], k)
					}
				}
				f, ferr := bloom.NewFilter(uint(sz), hs)
				if ferr != nil {
					vtrace.Broken(ferr.Error())
					return
				}
				if !emit(sz, len(hs), pos, keysPerG, f) {
					suspicious++
					break
				}
			}
		}
	}
	if err := w.Close(); err != nil {
		vtrace.Broken(err.Error())
	}
	if nScen == 0 {
		vtrace.Broken("no concurrent scenario in " + path)
	}
	vtrace.Stat("scenarios", nScen)
	vtrace.Stat("distinct", distinct.Len())
	vtrace.Stat("rounds", nRounds)
	vtrace.Stat("adds", nAdds)
	vtrace.Stat("answers", nAnswers)
	vtrace.Stat("rounds_with_a_false_answer", suspicious)
	vtrace.Stat("events", w.N)
}

// ---- race half

var methodRe = regexp.MustCompile(`storage/bloom\.\(\*Bloom\)\.(\w+)$`)

func describe(op string) string {
	switch op {
	case "Add:hot":
		return "Add(shared key)"
	case "Add:fresh":
		return "Add(fresh key per call)"
	case "MayContain:hot":
		return "MayContain(shared key)"
	case "MayContain:fresh":
		return "MayContain(fresh key per call)"
	}
	return op + "()"
}

// setup creates a fresh filter for one scenario and the factory of goroutine bodies
func setup(_ int) (interface{}, func(op string, g int) func(i int)) {
	// small filter so that different keys share bytes (the detector works per byte)
	f, err := bloom.NewFilter(6, []hashing.Hasher{keccak.NewKeccak(), fnv.NewFnv()})
	if err != nil {
		panic(err)
	}
	f.Add([]byte("hot"))
	return f, func(op string, g int) func(i int) {
		fresh := func(i int) []byte { return []byte(fmt.Sprintf("g%d-%d", g, i)) }
		switch op {
		case "Add:hot":
			return func(i int) { f.Add([]byte("hot")) }
		case "Add:fresh":
			return func(i int) { f.Add(fresh(i)) }
		case "MayContain:hot":
			return func(i int) { _ = f.MayContain([]byte("hot")) }
		case "MayContain:fresh":
			return func(i int) { _ = f.MayContain(fresh(i)) }
		case "Clear":
			return func(i int) { f.Clear() }
		case "IsInterfaceNil":
			return func(i int) { _ = f.IsInterfaceNil() }
		}
		return nil
	}
}

func main() {
	vtrace.Quiet()
	if len(os.Args) < 2 {
		fmt.Fprintln(os.Stderr, "usage: vh-bloom replay|record|race|one ...")
		os.Exit(2)
	}
	switch os.Args[1] {
	case "replay":
		replay(os.Args[2], os.Args[3])
	case "record":
		seed, _ := strconv.ParseInt(os.Args[2], 10, 64)
		traces, _ := strconv.Atoi(os.Args[3])
		n, _ := strconv.Atoi(os.Args[4])
		record(seed, traces, n, os.Args[5])
	case "conc":
		rounds, _ := strconv.Atoi(os.Args[3])
		seed, _ := strconv.ParseInt(os.Args[4], 10, 64)
		conc(os.Args[2], rounds, seed, os.Args[5])
	case "race":
		sc, err := racerun.ReadScenarios(os.Args[2])
		if err != nil {
			vtrace.Broken(err.Error())
			return
		}
		iters, _ := strconv.Atoi(os.Args[3])
		sort.SliceStable(sc, func(i, j int) bool { return len(sc[i].Ops) < len(sc[j].Ops) })
		racerun.Drive("C31", os.Args[0], sc, iters, methodRe, describe)
	case "batch":
		iters, _ := strconv.Atoi(os.Args[2])
		from, _ := strconv.Atoi(os.Args[4])
		to, _ := strconv.Atoi(os.Args[5])
		racerun.ChildBatch(os.Args[3], from, to, iters, setup)
	default:
		os.Exit(2)
	}
}
