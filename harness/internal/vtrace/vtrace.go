// Package vtrace is the common I/O layer between TLC and the Go harnesses:
//   - Behaviours: TLC -> Go. One JSON value per line, each a sequence of step records
//     [a |-> action, in |-> args, out |-> predicted result, st |-> projected state].
//   - Traces: Go -> TLC. One JSON object per line {"t":trace,"i":seq,"a":action,"in":..,"out":..,"st":..}.
//   - Results: Go -> vcheck. One JSON object per line on stdout: violations, drift, stats, samples.
package vtrace

import (
	logger "github.com/ElrondNetwork/elrond-go-logger"

	"bufio"
	"encoding/hex"
	"encoding/json"
	"fmt"
	"io"
	"os"
	"sort"
	"sync"
)

// Step is one record of a TLC-generated behaviour.
type Step struct {
	A   string                 `json:"a"`
	In  map[string]interface{} `json:"in"`
	Out map[string]interface{} `json:"out"`
	St  map[string]interface{} `json:"st"`
}

// ReadBehaviours reads an ndjson file where every line is a JSON array of steps.
func ReadBehaviours(path string) ([][]Step, error) {
	f, err := os.Open(path)
	if err != nil {
		return nil, err
	}
	defer f.Close()
	var res [][]Step
	r := bufio.NewReaderSize(f, 1<<20)
	for {
		line, err := r.ReadBytes('\n')
		if len(line) > 1 {
			var b []Step
			if e := json.Unmarshal(line, &b); e != nil {
				return nil, fmt.Errorf("behaviour line %d: %v", len(res)+1, e)
			}
			res = append(res, b)
		}
		if err == io.EOF {
			break
		}
		if err != nil {
			return nil, err
		}
	}
	return res, nil
}

// ReadLines reads an ndjson file into raw messages (for families with their own record shapes).
func ReadLines(path string) ([]json.RawMessage, error) {
	f, err := os.Open(path)
	if err != nil {
		return nil, err
	}
	defer f.Close()
	var res []json.RawMessage
	r := bufio.NewReaderSize(f, 1<<20)
	for {
		line, err := r.ReadBytes('\n')
		if len(line) > 1 {
			res = append(res, json.RawMessage(append([]byte(nil), line...)))
		}
		if err == io.EOF {
			break
		}
		if err != nil {
			return nil, err
		}
	}
	return res, nil
}

// Writer emits trace events (ndjson) for TLC trace validation.
type Writer struct {
	mu    sync.Mutex
	w     *bufio.Writer
	f     *os.File
	trace int
	seq   int
	N     int
}

// NewWriter creates the trace file.
func NewWriter(path string) (*Writer, error) {
	f, err := os.Create(path)
	if err != nil {
		return nil, err
	}
	return &Writer{w: bufio.NewWriterSize(f, 1<<20), f: f}, nil
}

// Event is one trace line.
type Event struct {
	T   int         `json:"t"`
	I   int         `json:"i"`
	A   string      `json:"a"`
	In  interface{} `json:"in"`
	Out interface{} `json:"out"`
	St  interface{} `json:"st"`
}

// NewTrace starts a new trace with a "Reset" event.
func (w *Writer) NewTrace() { w.NewTraceWith("Reset", M{}, M{}, M{}) }

// NewTraceWith starts a new trace whose first event is the given one (e.g. "New" carrying the
// configuration of the object under test).
func (w *Writer) NewTraceWith(action string, in, out, st interface{}) {
	w.mu.Lock()
	w.trace++
	w.seq = 0
	w.mu.Unlock()
	w.Emit(action, in, out, st)
}

// M is shorthand for a JSON object.
type M = map[string]interface{}

// Emit writes one event. nil maps are written as {} so that every field keeps one TLA+ type.
func (w *Writer) Emit(action string, in, out, st interface{}) {
	w.mu.Lock()
	defer w.mu.Unlock()
	w.seq++
	w.N++
	e := Event{T: w.trace, I: w.seq, A: action, In: nz(in), Out: nz(out), St: nz(st)}
	b, err := json.Marshal(e)
	if err != nil {
		panic(err)
	}
	w.w.Write(b)
	w.w.WriteByte('\n')
}

func nz(v interface{}) interface{} {
	if v == nil {
		return M{}
	}
	return v
}

// Close flushes the file.
func (w *Writer) Close() error {
	w.mu.Lock()
	defer w.mu.Unlock()
	if err := w.w.Flush(); err != nil {
		return err
	}
	return w.f.Close()
}

// Interner maps byte strings (hashes, keys) to small stable integers 1..n in first-seen order.
type Interner struct {
	mu  sync.Mutex
	ids map[string]int
	rev []string
}

// NewInterner creates an empty interner.
func NewInterner() *Interner { return &Interner{ids: map[string]int{}} }

// ID returns the small id of b.
func (in *Interner) ID(b []byte) int {
	in.mu.Lock()
	defer in.mu.Unlock()
	s := string(b)
	if id, ok := in.ids[s]; ok {
		return id
	}
	in.rev = append(in.rev, s)
	in.ids[s] = len(in.rev)
	return len(in.rev)
}

// Has reports whether b was seen.
func (in *Interner) Has(b []byte) bool {
	in.mu.Lock()
	defer in.mu.Unlock()
	_, ok := in.ids[string(b)]
	return ok
}

// Bytes returns the byte string of an id.
func (in *Interner) Bytes(id int) []byte { return []byte(in.rev[id-1]) }

// Len is the number of interned values.
func (in *Interner) Len() int { return len(in.rev) }

// Result lines (stdout of a harness binary, parsed by lib/vlib.py).

var outMu sync.Mutex

func emit(kind string, m M) {
	outMu.Lock()
	defer outMu.Unlock()
	m["kind"] = kind
	b, err := json.Marshal(m)
	if err != nil {
		panic(err)
	}
	fmt.Fprintf(os.Stdout, "@@VH %s\n", b)
}

// Violation reports that the property predicate is false on behaviour observed from the real code.
// sig is the stable signature used to match known findings; detail is free text/JSON for the replay file.
func Violation(prop, sig, what string, detail interface{}) {
	emit("violation", M{"property": prop, "sig": sig, "what": what, "detail": detail})
}

// Drift reports that the real code deviated from the functional part of the specification in a
// property-neutral way (never an alarm).
func Drift(prop, what string, detail interface{}) {
	emit("drift", M{"property": prop, "what": what, "detail": detail})
}

// Stat reports a measured counter.
func Stat(name string, v interface{}) { emit("stat", M{"name": name, "value": v}) }

// Sample reports one actual explored case (written into the evidence).
func Sample(prop string, v interface{}) { emit("sample", M{"property": prop, "value": v}) }

// Broken reports that the harness itself could not do its job (exit 2 in vcheck).
func Broken(what string) {
	emit("broken", M{"what": what})
}

// Distinct counts distinct non-trivial cases.
type Distinct struct {
	mu sync.Mutex
	m  map[string]struct{}
}

// NewDistinct creates the counter.
func NewDistinct() *Distinct { return &Distinct{m: map[string]struct{}{}} }

// Add registers a case key.
func (d *Distinct) Add(key string) {
	d.mu.Lock()
	d.m[key] = struct{}{}
	d.mu.Unlock()
}

// Len is the number of distinct keys.
func (d *Distinct) Len() int { d.mu.Lock(); defer d.mu.Unlock(); return len(d.m) }

// Hex is hex.EncodeToString.
func Hex(b []byte) string { return hex.EncodeToString(b) }

// UnHex decodes hex or panics (inputs come from our own specs).
func UnHex(s string) []byte {
	b, err := hex.DecodeString(s)
	if err != nil {
		panic(err)
	}
	return b
}

// Int reads a JSON number (float64) or int from a decoded map.
func Int(v interface{}) int {
	switch x := v.(type) {
	case float64:
		return int(x)
	case int:
		return x
	case json.Number:
		n, _ := x.Int64()
		return int(n)
	case nil:
		return 0
	}
	panic(fmt.Sprintf("vtrace.Int: %T %v", v, v))
}

// Str reads a JSON string.
func Str(v interface{}) string {
	if v == nil {
		return ""
	}
	return v.(string)
}

// Ints reads a JSON array (or TLA+ set/sequence exported as array) of numbers.
func Ints(v interface{}) []int {
	if v == nil {
		return nil
	}
	a := v.([]interface{})
	r := make([]int, len(a))
	for i := range a {
		r[i] = Int(a[i])
	}
	return r
}

// Strs reads a JSON array of strings.
func Strs(v interface{}) []string {
	if v == nil {
		return nil
	}
	a := v.([]interface{})
	r := make([]string, len(a))
	for i := range a {
		r[i] = Str(a[i])
	}
	return r
}

// SortedInts returns a sorted copy.
func SortedInts(a []int) []int {
	r := append([]int(nil), a...)
	sort.Ints(r)
	return r
}

// EqInts compares two int slices.
func EqInts(a, b []int) bool {
	if len(a) != len(b) {
		return false
	}
	for i := range a {
		if a[i] != b[i] {
			return false
		}
	}
	return true
}

// Quiet silences the node's logger (it writes to stdout, which carries our result lines).
func Quiet() { _ = logger.SetLogLevel("*:NONE") }
